(** [to_dense] as coded (strided writes of every physical element into a buffer filled with
    the default) computes [denote]: the cell at the row-major offset of an in-bounds index tuple
    holds exactly the element [denote] returns. *)
From Coq Require Import List Arith Lia PeanoNat Bool PArith.
Import ListNotations.
Require Import Fggs.Model.Axis Fggs.Model.PTensor Fggs.Proofs.Axis_sem Fggs.Proofs.PTensor_sem.

Lemma Forall2_len {A B} (R : A -> B -> Prop) l1 l2 : Forall2 R l1 l2 -> length l1 = length l2.
Proof. induction 1; simpl; congruence. Qed.

(** * row-major offsets *)
Definition prodl (l : list nat) : nat := fold_right Nat.mul 1 l.

Lemma flat_offset_acc shp : forall idx acc, length idx = length shp ->
  fold_left (fun acc ni => acc * fst ni + snd ni) (combine shp idx) acc
  = acc * prodl shp + flat_offset shp idx.
Proof.
  unfold flat_offset. induction shp as [|n shp IH]; intros idx acc L; destruct idx as [|i idx]; try discriminate.
  - simpl. lia.
  - simpl in L. simpl. rewrite (IH idx (acc * n + i)) by lia. rewrite (IH idx i) by lia.
    unfold prodl. simpl. fold (prodl shp). nia.
Qed.

Lemma flat_offset_cons n shp i idx : length idx = length shp ->
  flat_offset (n :: shp) (i :: idx) = i * prodl shp + flat_offset shp idx.
Proof. intros L. unfold flat_offset at 1. simpl. rewrite flat_offset_acc by exact L. reflexivity. Qed.

Definition in_bounds (shp idx : list nat) : Prop := Forall2 lt idx shp.

Lemma flat_offset_bound shp : forall idx, in_bounds shp idx -> flat_offset shp idx < prodl shp.
Proof.
  induction shp as [|n shp IH]; intros idx B; inversion B as [|i ? idx' ? Hi B']; subst.
  - cbv. lia.
  - rewrite flat_offset_cons by (eapply Forall2_len; eauto).
    specialize (IH _ B'). unfold prodl in *. simpl. fold (prodl shp) in *. nia.
Qed.

Lemma flat_offset_inj shp : forall idx1 idx2, in_bounds shp idx1 -> in_bounds shp idx2 ->
  flat_offset shp idx1 = flat_offset shp idx2 -> idx1 = idx2.
Proof.
  induction shp as [|n shp IH]; intros idx1 idx2 B1 B2 E;
    inversion B1 as [|i1 ? r1 ? Hi1 B1']; inversion B2 as [|i2 ? r2 ? Hi2 B2']; subst; [reflexivity|].
  rewrite !flat_offset_cons in E by (eapply Forall2_len; eauto).
  destruct (mixed_radix_inj (prodl shp) _ _ _ _ (flat_offset_bound _ _ B1') (flat_offset_bound _ _ B2') E) as [-> E'].
  f_equal. apply IH; assumption.
Qed.

Lemma flat_offset_evals rho vs : flat_offset (map numel vs) (evals rho vs) = evalL rho vs.
Proof.
  unfold flat_offset, evalL, evals. generalize 0 as acc. induction vs as [|e vs IH]; intros acc; [reflexivity|].
  simpl. apply IH.
Qed.

Lemma evals_in_bounds rho vs : Forall (inrange rho) vs -> in_bounds (map numel vs) (evals rho vs).
Proof.
  induction 1 as [|e vs He Hvs IH]; [constructor|]. simpl. constructor; [apply eval_bound; exact He|exact IH].
Qed.

(** the dot product with the row-major strides is the row-major offset *)
Lemma dot_dstrides shp : forall xs, length xs = length shp ->
  fold_left (fun acc xd => acc + fst xd * snd xd) (combine xs (dstrides shp)) 0 = flat_offset shp xs.
Proof.
  assert (G : forall shp xs acc, length xs = length shp ->
            fold_left (fun acc xd => acc + fst xd * snd xd) (combine xs (dstrides shp)) acc = acc + flat_offset shp xs).
  { clear. induction shp as [|n shp IH]; intros xs acc L; destruct xs as [|x xs]; try discriminate.
    - unfold flat_offset. simpl. lia.
    - simpl in L. cbn [dstrides combine fold_left fst snd]. rewrite IH by lia. rewrite flat_offset_cons by lia. unfold prodl. ring. }
  intros xs L. rewrite G by exact L. lia.
Qed.

(** * fuel for [stride] *)
Lemma stride_total_ge : forall fuel e, asize e <= fuel -> exists o s, stride fuel [] e = Ok (o, s).
Proof.
  induction fuel as [|fuel IH]; intros e0 Hf; [destruct e0; simpl in Hf; lia|].
  destruct e0 as [k n|l|b t a]; cbn [stride].
  - simpl. rewrite Pos.eqb_refl. eauto.
  - simpl in Hf.
    assert (forall os0, exists o s,
      fold_left (fun acc x => os <- acc ;; r <- stride fuel [] x ;;
                 let n := numel x in Ok (fst os * n + fst r, lin_merge (lin_scale n (snd os)) (snd r)))
              l (Ok os0) = Ok (o, s)) as G.
    { induction l as [|x l IHl]; intros os0; simpl; [destruct os0; eauto|].
      destruct (IH x) as (ox & sx & Ex); [simpl in Hf; lia|]. rewrite Ex. cbn [bind].
      apply IHl. simpl in Hf. lia. }
    apply G.
  - simpl in Hf. destruct (IH t) as (o1 & s1 & E1); [lia|]. rewrite E1. cbn [bind]. eauto.
Qed.

Lemma asize_le_list e vs : In e vs -> asize e <= asize_list vs.
Proof.
  induction vs as [|x vs IH]; intros H; [contradiction|]. unfold asize_list. simpl. fold (asize_list vs).
  destruct H as [->|H]; [lia|specialize (IH H); lia].
Qed.

Lemma models_nil rho : models rho [].
Proof. constructor. Qed.

Lemma proj_offset_spec fuel rho : forall vs ds, (forall e, In e vs -> asize e <= fuel) -> length ds = length vs ->
  proj_offset fuel vs ds rho = Ok (fold_left (fun acc xd => acc + fst xd * snd xd) (combine (evals rho vs) ds) 0).
Proof.
  unfold proj_offset. generalize 0 as acc.
  intros acc vs. revert acc. induction vs as [|e vs IH]; intros acc ds Hf L; destruct ds as [|d ds]; try discriminate.
  - reflexivity.
  - simpl. destruct (stride_total_ge fuel e (Hf e (or_introl eq_refl))) as (o & s & E). rewrite E. cbn [bind fst snd].
    rewrite (stride_affine rho [] (models_nil rho) _ _ _ _ E).
    apply IH; [intros x Hx; apply Hf; right; exact Hx|simpl in L; lia].
Qed.

(** * environments enumerated by [all_envs] *)
Lemma in_all_envs vars : forall pi, In pi (all_envs vars) ->
  map fst pi = map fst vars /\ Forall2 (fun ki kn => snd ki < snd kn) pi vars.
Proof.
  induction vars as [|[k n] vars IH]; intros pi H.
  - simpl in H. destruct H as [<-|[]]. split; [reflexivity|constructor].
  - simpl in H. apply in_flat_map in H. destruct H as (i & Hi & H). apply in_map_iff in H.
    destruct H as (pi' & <- & Hpi'). apply in_seq in Hi. destruct (IH _ Hpi') as [K B].
    split; [simpl; f_equal; exact K|constructor; [simpl; lia|exact B]].
Qed.

Lemma all_envs_complete vars (rho : env) : (forall k n, In (k, n) vars -> rho k < n) ->
  In (map (fun kn => (fst kn, rho (fst kn))) vars) (all_envs vars).
Proof.
  induction vars as [|[k n] vars IH]; intros H; [left; reflexivity|].
  simpl. apply in_flat_map. exists (rho k). split.
  - apply in_seq. specialize (H k n (or_introl eq_refl)). lia.
  - apply in_map. apply IH. intros k' n' H'. apply H. right. exact H'.
Qed.

Lemma assoc_restrict (rho : env) vars k : In k (map fst vars) ->
  assoc k (map (fun kn : pn => (fst kn, rho (fst kn))) vars) = Some (rho k).
Proof.
  induction vars as [|[k' n] vars IH]; intros H; [contradiction|]. simpl.
  destruct (Pos.eqb_spec k' k) as [->|Hne]; [reflexivity|].
  apply IH. destruct H as [H|H]; [simpl in H; congruence|exact H].
Qed.

Lemma env_of_in_range vars pi : NoDup (map fst vars) -> In pi (all_envs vars) ->
  forall k n, In (k, n) vars -> env_of pi k < n.
Proof.
  intros ND H. destruct (in_all_envs _ _ H) as [K B]. clear H. revert pi K B.
  induction vars as [|[k0 n0] vars IH]; intros pi K B k n Hin; [contradiction|].
  destruct pi as [|[k1 i1] pi]; [discriminate|]. simpl in K. inversion K; subst. inversion B as [|? ? ? ? Hi B']; subst.
  inversion ND as [|? ? Hnot ND']; subst. unfold env_of. simpl.
  destruct Hin as [Hin|Hin].
  - inversion Hin; subst. rewrite Pos.eqb_refl. exact Hi.
  - destruct (Pos.eqb_spec k0 k) as [->|Hne].
    + exfalso. apply Hnot. apply in_map_iff. exists (k, n). auto.
    + apply (IH ND' pi H1 B' k n Hin).
Qed.

Lemma inrange_fvn rho e : (forall k n, In (k, n) (fvn e) -> rho k < n) <-> inrange rho e.
Proof.
  induction e as [k n|l IH|b t a IH] using axis_ind'.
  - simpl. split; [intros H; apply H; left; reflexivity|intros H k' n' [E|[]]; inversion E; subst; exact H].
  - rewrite inrange_Prod. split.
    + intros H. rewrite Forall_forall in *. intros x Hx. apply IH; [exact Hx|].
      intros k n Hk. apply H. simpl. apply in_flat_map. eauto.
    + intros H k n Hk. simpl in Hk. apply in_flat_map in Hk. destruct Hk as (x & Hx & Hk).
      rewrite Forall_forall in *. exact (proj2 (IH x Hx) (H x Hx) k n Hk).
  - simpl. exact IH.
Qed.

Lemma fv_fvn e : fv e = map fst (fvn e).
Proof.
  induction e as [k n|l IH|b t a IH] using axis_ind'; [reflexivity| |exact IH].
  simpl. induction l as [|x l IHl]; [reflexivity|]. inversion IH; subst. simpl. rewrite map_app, H1, IHl by assumption. reflexivity.
Qed.

Section Dense.
Variable V : Type.
Notation ptensor := (ptensor V).

(** the full representation invariant, as a proposition *)
Record wf (t : ptensor) : Prop := {
  wf_nodup : NoDup (map fst (paxes t));
  wf_fv : forall k n, In (k, n) (flat_map fvn (vaxes t)) <-> In (k, n) (paxes t) }.

Lemma wf_covers t : wf t -> covers (paxes t) (vaxes t).
Proof.
  intros W k Hk. apply in_map_iff in Hk. destruct Hk as ([k' n] & <- & H). apply (wf_fv t W) in H.
  apply in_flat_map in H. destruct H as (e & He & H). apply in_flat_map. exists e. split; [exact He|].
  rewrite fv_fvn. apply in_map_iff. exists (k', n). auto.
Qed.

Lemma wf_inrange t pi : wf t -> In pi (all_envs (paxes t)) -> Forall (inrange (env_of pi)) (vaxes t).
Proof.
  intros W H. rewrite Forall_forall. intros e He. apply inrange_fvn. intros k n Hk.
  apply (env_of_in_range _ _ (wf_nodup t W) H). apply (wf_fv t W). apply in_flat_map. eauto.
Qed.

(** a fold of writes: the cell holds the common value of the writers, or the initial value *)
Lemma writes_spec (offf : list pn -> res nat) (val : list pn -> V) (off : list pn -> nat) :
  forall envs st0, (forall pi, In pi envs -> offf pi = Ok (off pi)) ->
  exists st, fold_left (fun acc pi => st <- acc ;; o <- offf pi ;; Ok (write V st o (val pi))) envs (Ok st0) = Ok st /\
    forall o, ((forall pi, In pi envs -> off pi <> o) -> st o = st0 o) /\
              (forall v, (exists pi, In pi envs /\ off pi = o) -> (forall pi, In pi envs -> off pi = o -> val pi = v) -> st o = v).
Proof.
  induction envs as [|pi envs IH]; intros st0 Hoff.
  - exists st0. split; [reflexivity|]. intros o. split; [reflexivity|]. intros v [pi [[] _]].
  - simpl. rewrite (Hoff pi (or_introl eq_refl)). cbn [bind].
    destruct (IH (write V st0 (off pi) (val pi)) (fun p Hp => Hoff p (or_intror Hp))) as (st & E & S).
    exists st. split; [exact E|]. intros o. destruct (S o) as [S1 S2]. split.
    + intros N. rewrite S1 by (intros p Hp; apply N; right; exact Hp).
      unfold write. destruct (Nat.eqb_spec o (off pi)) as [->|]; [exfalso; apply (N pi); [left|]; reflexivity|reflexivity].
    + intros v [p [Hp Ep]] Hv.
      destruct (existsb (fun q => Nat.eqb (off q) o) envs) eqn:Ex.
      * apply existsb_exists in Ex. destruct Ex as (q & Hq & Eq). apply Nat.eqb_eq in Eq.
        apply S2; [exists q; auto|]. intros r Hr Er. apply Hv; [right; exact Hr|exact Er].
      * assert (N : forall q, In q envs -> off q <> o).
        { intros q Hq Eq. assert (existsb (fun q => Nat.eqb (off q) o) envs = true); [|congruence].
          apply existsb_exists. exists q. split; [exact Hq|apply Nat.eqb_eq; exact Eq]. }
        rewrite S1 by exact N. destruct Hp as [<-|Hp]; [|exfalso; exact (N p Hp Ep)].
        unfold write. rewrite Ep, Nat.eqb_refl. apply Hv; [left; reflexivity|exact Ep].
Qed.

(** C06: to_dense (strided writes) = denote *)
Theorem to_dense_denote (t : ptensor) : wf t ->
  exists st, to_dense_store V t = Ok st /\
    forall idx, in_bounds (shape V t) idx -> st (flat_offset (shape V t) idx) = denote V t idx.
Proof.
  intros W. unfold to_dense_store.
  set (fuel := S (asize_list (vaxes t))).
  set (off := fun pi : list pn => flat_offset (shape V t) (evals (env_of pi) (vaxes t))).
  assert (Hoff : forall pi, In pi (all_envs (paxes t)) ->
            proj_offset fuel (vaxes t) (dstrides (shape V t)) (env_of pi) = Ok (off pi)).
  { intros pi _. rewrite proj_offset_spec.
    - unfold off. rewrite dot_dstrides; [reflexivity|]. unfold evals, shape. rewrite !map_length. reflexivity.
    - intros e He. pose proof (asize_le_list _ _ He). unfold fuel. lia.
    - unfold shape. clear. induction (vaxes t); simpl; [reflexivity|f_equal; assumption]. }
  destruct (writes_spec (fun pi => proj_offset fuel (vaxes t) (dstrides (shape V t)) (env_of pi))
                        (fun pi => pget V t (env_of pi)) off _ (fun _ => default t) Hoff) as (st & E & S).
  exists st. split; [exact E|]. intros idx B.
  assert (L : length idx = length (vaxes t)).
  { apply Forall2_len in B. unfold shape in B. rewrite map_length in B. exact B. }
  destruct (S (flat_offset (shape V t) idx)) as [S1 S2].
  (* an environment of the list that writes to this cell evaluates to idx *)
  assert (Hit : forall pi, In pi (all_envs (paxes t)) -> off pi = flat_offset (shape V t) idx ->
            evals (env_of pi) (vaxes t) = idx).
  { intros pi Hpi Eo. apply (flat_offset_inj (shape V t)); [|exact B|exact Eo].
    apply evals_in_bounds. apply wf_inrange; assumption. }
  destruct (denote_cases V t idx (wf_covers t W) L) as [(rho & R & Ee & D)|[N D]].
  - rewrite D. apply S2.
    + exists (map (fun kn => (fst kn, rho (fst kn))) (paxes t)). split.
      * apply all_envs_complete. intros k n Hk. apply (wf_fv t W) in Hk.
        apply in_flat_map in Hk. destruct Hk as (e & He & Hk). rewrite Forall_forall in R.
        exact (proj2 (inrange_fvn rho e) (R e He) k n Hk).
      * unfold off. f_equal. rewrite <- Ee. unfold evals. apply map_ext_in. intros e He.
        (* eval only depends on the free variables, all of which are physical axes of t *)
        assert (G : forall e0, (forall k, In k (fv e0) -> In k (map fst (paxes t))) ->
                  eval (env_of (map (fun kn : pn => (fst kn, rho (fst kn))) (paxes t))) e0 = eval rho e0).
        { induction e0 as [k n|l IH|b t0 a IH] using axis_ind'; intros Hfv.
          - simpl. unfold env_of. rewrite assoc_restrict; [reflexivity|apply Hfv; left; reflexivity].
          - simpl. assert (Hl : forall x, In x l -> eval (env_of (map (fun kn : pn => (fst kn, rho (fst kn))) (paxes t))) x = eval rho x).
            { intros x Hx. rewrite Forall_forall in IH. apply IH; [exact Hx|]. intros k Hk. apply Hfv. simpl. apply in_flat_map. eauto. }
            generalize 0 as acc. clear IH Hfv. induction l as [|x l IHl]; intros acc; [reflexivity|].
            simpl. rewrite (Hl x (or_introl eq_refl)). apply IHl. intros y Hy. apply Hl. right. exact Hy.
          - simpl. f_equal. apply IH. exact Hfv. }
        apply G. intros k Hk. rewrite fv_fvn in Hk. apply in_map_iff in Hk. destruct Hk as ([k' n] & <- & Hk).
        apply in_map_iff. exists (k', n). split; [reflexivity|]. apply (wf_fv t W). apply in_flat_map. eauto.
    + intros pi Hpi Eo. pose proof (Hit pi Hpi Eo) as Ei. unfold pget. f_equal. apply pcoords_ext. intros k Hk.
      apply (pattern_injective (vaxes t) (env_of pi) rho); [apply wf_inrange; assumption|exact R| |apply (wf_covers t W); exact Hk].
      unfold evals in Ei, Ee. rewrite Ei, Ee. reflexivity.
  - rewrite D. rewrite S1; [reflexivity|]. intros pi Hpi Eo.
    apply (N (env_of pi)); [apply wf_inrange; assumption|apply Hit; assumption].
Qed.

End Dense.
