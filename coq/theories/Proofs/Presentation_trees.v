(** C12 for DERIVATIONS: the presentation map on derivation trees.
    [tmap sigma alpha kappa] renames the rule index of every node of a derivation tree by
    [sigma], transports its assignment by [alpha] and reorders its children by the position
    list [kappa] of the rule.  Under a rule-by-rule simulation [rule_tsim] the image of a
    well-formed derivation of [G] is a well-formed derivation of [G'] with the same weight (in
    every commutative semiring) and the same depth ([tmap_sim]).  Each of the five ingredients
    of a presentation is an instance, hence ([tree_presentation]): every well-formed derivation
    of [G] has an image among the well-formed derivations of every presentation [G'] of [G], of
    equal weight and depth.  With C04 (Viterbi semiring: the least fixed point is the maximum
    over all derivations and is attained) the optimal derivation weight is the same. *)
From Coq Require Import List Arith Bool PeanoNat Lia Permutation.
Import ListNotations.
Require Import Fggs.Model.Semiring Fggs.Model.SCC Fggs.Model.SumProduct.
Require Import Fggs.Proofs.SCC_ntgraph Fggs.Proofs.BigSum Fggs.Proofs.SP_trees Fggs.Proofs.SP_nonrec
               Fggs.Proofs.SP_code Fggs.Proofs.SP_rename Fggs.Proofs.SP_spe Fggs.Proofs.SP_driver
               Fggs.Proofs.SP_mono.
Require Import Fggs.Proofs.Presentation Fggs.Proofs.Presentation_perm Fggs.Proofs.Presentation_nodes
               Fggs.Proofs.Presentation_dom Fggs.Proofs.Presentation_relabel Fggs.Proofs.Presentation_wf
               Fggs.Proofs.Presentation_cor Fggs.Proofs.Presentation_lfp.

(** * induction on derivation trees (nested through [list (option _)]) *)
Section DtreeInd.
Variable P : dtree -> Prop.
Definition optP (c : option dtree) : Prop := match c with Some t => P t | None => True end.
Hypothesis HDT : forall ri a ch, Forall optP ch -> P (DT ri a ch).
Fixpoint dtree_induction (t : dtree) : P t :=
  match t with
  | DT ri a ch =>
    HDT ri a ch
      ((fix go (ch : list (option dtree)) : Forall optP ch :=
          match ch return Forall optP ch with
          | [] => Forall_nil optP
          | c :: ch => @Forall_cons _ optP c ch
                         (match c return optP c with Some t => dtree_induction t | None => I end) (go ch)
          end) ch)
  end.
End DtreeInd.

(** * list facts *)
Lemma all2_length {A B} (P : A -> B -> Prop) : forall l l', all2 P l l' -> length l = length l'.
Proof. induction l as [|a l IH]; intros [|b l'] H; cbn in *; try tauto. f_equal. apply IH. tauto. Qed.
Lemma all2_nth {A B} (P : A -> B -> Prop) da db : forall l l' j,
  all2 P l l' -> j < length l -> P (nth j l da) (nth j l' db).
Proof.
  induction l as [|a l IH]; intros [|b l'] j H Hj; cbn in *; try tauto; try lia.
  destruct j as [|j]; [tauto|]. apply IH; [tauto|lia].
Qed.
Lemma all2_map2 {A B C} (P : A -> B -> Prop) (f : C -> A) (g : C -> B) l :
  (forall j, In j l -> P (f j) (g j)) -> all2 P (map f l) (map g l).
Proof.
  induction l as [|c l IH]; intros H; cbn [map all2]; [exact I|]. split; [apply H; now left|].
  apply IH. intros j Hj. apply H. now right.
Qed.
Lemma combine_map2 {A B C} (f : C -> A) (g : C -> B) l :
  combine (map f l) (map g l) = map (fun j => (f j, g j)) l.
Proof. induction l as [|c l IH]; [reflexivity|]. cbn [map combine]. now rewrite IH. Qed.
Lemma combine_as_map {A B} (l : list A) (l' : list B) da db :
  length l = length l' -> combine l l' = map (fun j => (nth j l da, nth j l' db)) (seq 0 (length l)).
Proof.
  revert l'. induction l as [|a l IH]; intros [|b l'] H; cbn [length] in *; try discriminate; [reflexivity|].
  cbn [combine seq map nth]. f_equal. rewrite <- seq_shift, map_map. apply IH. lia.
Qed.
Lemma fold_max_perm l l' : Permutation l l' -> fold_right Nat.max 0 l = fold_right Nat.max 0 l'.
Proof. induction 1; cbn [fold_right]; lia. Qed.

(** * the generic simulation on trees *)
Section TreeSim.
Context {R : Type} (o : sr_ops R) (Hring : sr_ring o).
Variables (G G' : grammar) (pi : nat -> nat) (tau : nat -> list nat -> list nat).
Variables (sigma : nat -> nat) (alpha : nat -> list nat -> list nat) (kappa : nat -> list nat)
          (emap : nat -> nat * list nat -> nat * list nat).

Definition de : nat * list nat := (0, []).

Fixpoint tmap (t : dtree) : dtree :=
  match t with
  | DT ri a ch =>
    DT (sigma ri) (alpha ri a)
       (map (fun j => nth j (map (fun c => match c with Some t' => Some (tmap t') | None => None end) ch) None) (kappa ri))
  end.

(** rule number [ri] of [G] and rule number [sigma ri] of [G'] *)
Definition rule_tsim (ri : nat) : Prop :=
  let r := get_rule G ri in
  let r' := get_rule G' (sigma ri) in
  sigma ri < length (g_rules G')
  /\ r_lhs r' = pi (r_lhs r)
  /\ Permutation (kappa ri) (seq 0 (length (r_edges r)))
  /\ r_edges r' = map (fun j => emap ri (nth j (r_edges r) de)) (kappa ri)
  /\ (forall ed, In ed (r_edges r) ->
        fst (emap ri ed) = pi (fst ed) /\ is_term G' (pi (fst ed)) = is_term G (fst ed))
  /\ (forall a, In a (all_assts (node_sizes G r)) ->
        In (alpha ri a) (all_assts (node_sizes G' r'))
        /\ sel (alpha ri a) (r_ext r') = tau (r_lhs r) (sel a (r_ext r))
        /\ forall ed, In ed (r_edges r) -> sel (alpha ri a) (snd (emap ri ed)) = tau (fst ed) (sel a (snd ed))).

Variables (w w' : env (R:=R)).
Hypothesis Hsim : forall ri, ri < length (g_rules G) -> rule_tsim ri.
(** the weights correspond wherever a rule reads a terminal *)
Hypothesis Hw : forall ri a ed, ri < length (g_rules G) -> In a (all_assts (node_sizes G (get_rule G ri))) ->
  In ed (r_edges (get_rule G ri)) -> is_term G (fst ed) = true ->
  w' (pi (fst ed)) (tau (fst ed) (sel a (snd ed))) = w (fst ed) (sel a (snd ed)).

Theorem tmap_sim : forall t X xi,
  wf_dtree G X xi t ->
  wf_dtree G' (pi X) (tau X xi) (tmap t)
  /\ weight o G' w' (tmap t) = weight o G w t
  /\ depth (tmap t) = depth t.
Proof.
  induction t as [ri a ch IH] using dtree_induction. intros X xi Hwf.
  cbn [wf_dtree] in Hwf. destruct Hwf as (Hri & Hlhs & Ha & Hext & Hch).
  destruct (Hsim ri Hri) as (Hs & Hl & Hk & Hed & Hem & Hal). cbn zeta in *.
  destruct (Hal a Ha) as (Ha' & Hext' & Hsel).
  set (r := get_rule G ri) in *. set (r' := get_rule G' (sigma ri)) in *.
  set (fc := fun c : option dtree => match c with Some t' => Some (tmap t') | None => None end).
  pose proof (all2_length _ _ _ Hch) as Hlen.
  assert (Hkin : forall j, In j (kappa ri) -> j < length (r_edges r)).
  { intros j Hj. apply (Permutation_in _ Hk) in Hj. apply in_seq in Hj. lia. }
  assert (Hnth : forall j, nth j (map fc ch) None = fc (nth j ch None)).
  { intros j. now rewrite <- (map_nth fc ch None j). }
  (* what the simulation gives for every (child, edge) pair *)
  assert (Hpair : forall j, j < length (r_edges r) ->
            let c := nth j ch None in let ed := nth j (r_edges r) de in
            match fc c with
            | None => is_term G' (fst (emap ri ed)) = true
            | Some t' => is_term G' (fst (emap ri ed)) = false
                         /\ wf_dtree G' (fst (emap ri ed)) (sel (alpha ri a) (snd (emap ri ed))) t'
            end
            /\ child_weight o G' w' (alpha ri a) (emap ri ed) (fc c) = child_weight o G w a ed c
            /\ opt_depth depth (fc c) = opt_depth depth c).
  { intros j Hj c ed.
    assert (Hin : In ed (r_edges r)) by (apply nth_In; exact Hj).
    assert (Hjc : j < length ch) by lia.
    pose proof (all2_nth _ None de ch (r_edges r) j Hch Hjc) as Hp. fold c ed in Hp.
    destruct (Hem ed Hin) as [E1 E2].
    assert (Hc : optP (fun t => forall X xi, wf_dtree G X xi t ->
                   wf_dtree G' (pi X) (tau X xi) (tmap t) /\ weight o G' w' (tmap t) = weight o G w t
                   /\ depth (tmap t) = depth t) c).
    { rewrite Forall_forall in IH. apply IH. apply nth_In. exact Hjc. }
    destruct c as [t'|]; cbn [fc optP] in *.
    - destruct Hp as [Ht Hwt]. destruct (Hc _ _ Hwt) as (H1 & H2 & H3).
      rewrite E1, E2, (Hsel ed Hin). repeat split; trivial.
    - rewrite E1, E2. split; [exact Hp|]. split; [|reflexivity].
      unfold child_weight. rewrite E1, (Hsel ed Hin). now apply (Hw ri a ed). }
  split; [|split].
  - cbn [tmap wf_dtree]. fold r'. split; [exact Hs|]. split; [now rewrite Hl, Hlhs|]. split; [exact Ha'|].
    split; [now rewrite Hext', Hlhs, Hext|]. rewrite Hed. fold fc. apply all2_map2.
    intros j Hj. rewrite Hnth. apply (Hpair j (Hkin j Hj)).
  - cbn [tmap]. rewrite !(weight_DT o). fold r r' fc. rewrite Hed, combine_map2, prodS_map. cbn [fst snd].
    rewrite (prodS_perm o Hring _ _ _ Hk).
    rewrite (combine_as_map (r_edges r) ch de None) by lia. rewrite prodS_map. cbn [fst snd].
    apply prodS_ext. intros j Hj. apply in_seq in Hj. rewrite Hnth. apply (Hpair j). lia.
  - cbn [tmap depth]. f_equal. fold fc. rewrite map_map.
    rewrite (fold_max_perm _ (map (fun j => opt_depth depth (nth j (map fc ch) None)) (seq 0 (length ch)))).
    2:{ apply Permutation_map. now rewrite Hlen. }
    f_equal.
    replace (map (opt_depth depth) ch) with (map (fun j => opt_depth depth (nth j ch None)) (seq 0 (length ch))).
    2:{ rewrite <- (map_map (fun j => nth j ch None) (opt_depth depth)). now rewrite <- list_as_map_nth. }
    apply map_ext_in.
    intros j Hj. apply in_seq in Hj. rewrite Hnth. apply (Hpair j). lia.
Qed.
End TreeSim.

(** * more list facts: positionwise reading of [Forall2], index lists of permutations *)
Lemma Forall2_nth {A B} (P : A -> B -> Prop) da db l l' :
  Forall2 P l l' -> forall i, i < length l -> P (nth i l da) (nth i l' db).
Proof.
  induction 1 as [|a b l l' Hab _ IH]; intros i Hi; cbn [length] in Hi; [lia|].
  destruct i as [|i]; [exact Hab|]. cbn [nth]. apply IH. lia.
Qed.
Lemma Forall2_len {A B} {P : A -> B -> Prop} {l l'} : Forall2 P l l' -> length l = length l'.
Proof. induction 1; cbn [length]; congruence. Qed.
Lemma Forall2_ex_list {A B C} (Q : C -> A -> B -> Prop) dc da db l l' :
  Forall2 (fun a b => exists c, Q c a b) l l' ->
  exists cs, forall i, i < length l -> Q (nth i cs dc) (nth i l da) (nth i l' db).
Proof.
  induction 1 as [|a b l l' (c & Hc) _ (cs & IH)]; [exists []; intros i Hi; cbn in Hi; lia|].
  exists (c :: cs). intros [|i] Hi; [exact Hc|]. cbn [nth]. apply IH. cbn [length] in Hi. lia.
Qed.
Lemma perm_index_list {A} (d : A) l l' : Permutation l l' ->
  exists q, Permutation q (seq 0 (length l)) /\ l' = map (fun j => nth j l d) q.
Proof.
  intros H. apply (Permutation_nth l l' d) in H. cbn zeta in H. destruct H as (Hlen & f & Hb & Hi & Hn).
  exists (map f (seq 0 (length l))). split.
  - apply NoDup_Permutation_bis.
    + apply NoDup_map_inj_on; [|apply seq_NoDup]. intros x y Hx Hy. apply in_seq in Hx, Hy. apply Hi; lia.
    + rewrite map_length. lia.
    + intros y Hy. apply in_map_iff in Hy. destruct Hy as (x & <- & Hx). apply in_seq in Hx. apply in_seq.
      specialize (Hb x). lia.
  - etransitivity; [apply (list_as_map_nth l' d)|]. rewrite Hlen, map_map. apply map_ext_in.
    intros x Hx. apply in_seq in Hx. apply Hn. lia.
Qed.
Lemma map_as_index_map {A B} (f : A -> B) (l : list A) d :
  map f l = map (fun j => f (nth j l d)) (seq 0 (length l)).
Proof. rewrite <- (map_map (fun j => nth j l d) f). now rewrite <- list_as_map_nth. Qed.

(** * the five ingredients, and the composition *)
Section Stages.
Context {R : Type} (o : sr_ops R) (Hring : sr_ring o).

(** every well-formed derivation of (X, xi) in [G] has an image among those of (X', xi') in [G'],
    of the same weight and depth *)
Definition tree_image (G G' : grammar) (w w' : env (R:=R)) (X : nat) (xi : list nat) (X' : nat) (xi' : list nat) : Prop :=
  forall t, wf_dtree G X xi t ->
    exists t', wf_dtree G' X' xi' t' /\ weight o G' w' t' = weight o G w t /\ depth t' = depth t.

Lemma tree_image_trans G1 G2 G3 (w1 w2 w3 : env (R:=R)) X1 xi1 X2 xi2 X3 xi3 :
  tree_image G1 G2 w1 w2 X1 xi1 X2 xi2 -> tree_image G2 G3 w2 w3 X2 xi2 X3 xi3 ->
  tree_image G1 G3 w1 w3 X1 xi1 X3 xi3.
Proof.
  intros H12 H23 t Ht. destruct (H12 t Ht) as (t2 & H2 & E2 & D2). destruct (H23 t2 H2) as (t3 & H3 & E3 & D3).
  exists t3. split; [exact H3|]. split; congruence.
Qed.

Definition kseq (G : grammar) (ri : nat) : list nat := seq 0 (length (r_edges (get_rule G ri))).

(** 5: values of the domains permuted *)
Lemma tree_image_dom G rho (w w' : env (R:=R)) X xi :
  wf_grammar G = true -> dom_perms G rho ->
  (forall l idx, vlab G l -> vidx G l idx -> is_term G l = true -> w' l (pmap rho (ltype G l) idx) = w l idx) ->
  tree_image G G w w' X xi X (pmap rho (ltype G X) xi).
Proof.
  intros Hwf Hrho Hw t Ht.
  exists (tmap (fun i => i) (fun ri a => pmap rho (r_nodes (get_rule G ri)) a) (kseq G) t).
  apply (tmap_sim o Hring G G (fun l => l) (fun l idx => pmap rho (ltype G l) idx) _ _ _ (fun _ ed => ed) w w'); [| |exact Ht].
  - intros ri Hri.
    pose proof (wf_grammar_rules G Hwf _ (nth_In _ dummy_rule Hri)) as Hwr. fold (get_rule G ri) in Hwr.
    destruct (wf_rule_types G _ Hwr) as (Hlhs & Hnl & Hed & Hext & Hty).
    unfold rule_tsim. cbn zeta. split; [exact Hri|]. split; [reflexivity|]. split; [apply Permutation_refl|].
    split; [apply list_as_map_nth|]. split; [intros ed _; split; reflexivity|].
    intros a Ha. pose proof (all_assts_length _ _ Ha) as Hla. rewrite node_sizes_length in Hla.
    split.
    { unfold node_sizes in *. apply pmap_all_assts; trivial. intros nl Hin. apply Hrho. now apply Hnl. }
    split; [now rewrite (sel_pmap rho _ a _ Hla Hext), Hty|].
    intros ed Hin. destruct (Hed ed Hin) as (H1 & H2 & H3). now rewrite (sel_pmap rho _ a _ Hla H2), H3.
  - intros ri a ed Hri Ha Hed Ht'.
    pose proof (wf_grammar_rules G Hwf _ (nth_In _ dummy_rule Hri)) as Hwr. fold (get_rule G ri) in Hwr.
    apply Hw; trivial.
    + apply (wf_rule_types G _ Hwr). exact Hed.
    + now apply (wf_rule_query_in_range G (get_rule G ri)).
Qed.

(** 4: labels renumbered *)
Lemma tree_image_relabel pel pnl G G' (w w' : env (R:=R)) X xi :
  wf_grammar G = true -> relabelled pel pnl G G' ->
  (forall l idx, l < length (g_labels G) -> is_term G l = true -> w' (pel l) idx = w l idx) ->
  tree_image G G' w w' X xi (pel X) xi.
Proof.
  intros Hwf Hrel Hw t Ht.
  exists (tmap (fun i => i) (fun _ a => a) (kseq G) t).
  apply (tmap_sim o Hring G G' pel (fun _ idx => idx) _ _ _ (fun _ ed => (pel (fst ed), snd ed)) w w'); [| |exact Ht].
  - intros ri Hri.
    pose proof (wf_grammar_rules G Hwf _ (nth_In _ dummy_rule Hri)) as Hwr. fold (get_rule G ri) in Hwr.
    destruct (wf_rule_types G _ Hwr) as (Hlhs & Hnl & Hed & Hext & Hty).
    pose proof (Forall2_nth _ dummy_rule dummy_rule _ _ (rl_rules _ _ _ _ Hrel) ri Hri) as (E1 & E2 & E3 & E4).
    fold (get_rule G ri) in *. fold (get_rule G' ri) in *.
    unfold rule_tsim. cbn zeta. split; [now rewrite <- (Forall2_len (rl_rules _ _ _ _ Hrel))|].
    split; [exact E1|]. split; [apply Permutation_refl|].
    split; [rewrite E3; unfold kseq; exact (map_as_index_map (fun ed : nat * list nat => (pel (fst ed), snd ed)) (r_edges (get_rule G ri)) de)|].
    split.
    { intros ed Hin. split; [reflexivity|]. apply (rl_term _ _ _ _ Hrel). now apply (Hed ed). }
    intros a Ha.
    assert (Hs : node_sizes G' (get_rule G' ri) = node_sizes G (get_rule G ri)).
    { unfold node_sizes. rewrite E2, map_map. apply map_ext_in. intros nl Hin. apply (rl_dom _ _ _ _ Hrel). now apply Hnl. }
    rewrite Hs, E4. split; [exact Ha|]. split; reflexivity.
  - intros ri a ed Hri Ha Hed Ht'.
    pose proof (wf_grammar_rules G Hwf _ (nth_In _ dummy_rule Hri)) as Hwr. fold (get_rule G ri) in Hwr.
    apply Hw; trivial. apply (wf_rule_types G _ Hwr). exact Hed.
Qed.

(** 3: nodes of every rule renumbered *)
Lemma tree_image_nodes G G' (w : env (R:=R)) X xi :
  g_doms G = g_doms G' -> g_labels G = g_labels G' -> rules_nodes_perm (g_rules G) (g_rules G') ->
  tree_image G G' w w X xi X xi.
Proof.
  intros Hd Hl HF t Ht.
  destruct (Forall2_ex_list (fun p r r' => rule_nodes_perm p r r') [] dummy_rule dummy_rule _ _ HF) as (ps & Hps).
  exists (tmap (fun i => i) (fun ri a => sel a (pinv (nth ri ps []))) (kseq G) t).
  apply (tmap_sim o Hring G G' (fun l => l) (fun _ idx => idx) _ _ _
                  (fun ri ed => (fst ed, map (pfun (nth ri ps [])) (snd ed))) w w); [| |exact Ht].
  - intros ri Hri. pose proof (Hps ri Hri) as Hpr. fold (get_rule G ri) in Hpr. fold (get_rule G' ri) in Hpr.
    pose proof (node_sizes_perm G' _ _ _ Hpr) as Hs.
    destruct Hpr as (Hp & Hlp & Elhs & En & Eed & Eext).
    set (p := nth ri ps []) in *.
    assert (Hs0 : node_sizes G (get_rule G ri) = node_sizes G' (get_rule G ri)).
    { unfold node_sizes, dom. now rewrite Hd. }
    unfold rule_tsim. cbn zeta. split; [now rewrite <- (Forall2_len HF)|].
    split; [exact Elhs|]. split; [apply Permutation_refl|].
    split; [rewrite Eed; unfold kseq; exact (map_as_index_map (fun ed : nat * list nat => (fst ed, map (pfun p) (snd ed))) (r_edges (get_rule G ri)) de)|].
    split.
    { intros ed _. split; [reflexivity|]. unfold is_term. now rewrite Hl. }
    intros a Ha. rewrite Hs0, Hs in Ha.
    assert (Hlsz : length p = length (node_sizes G' (get_rule G' ri))) by now rewrite node_sizes_length.
    pose proof (all_assts_length _ _ Ha) as Hla. rewrite sel_length in Hla.
    assert (Hla' : length (sel a (pinv p)) = length p) by now rewrite sel_length, pinv_length.
    split.
    { pose proof (all_assts_sel_perm (sel (node_sizes G' (get_rule G' ri)) p) a (pinv p) (pinv_is_perm p Hp)) as H.
      rewrite sel_pinv_l in H by (trivial; lia). apply H; trivial. now rewrite sel_length, pinv_length. }
    split.
    { rewrite Eext, <- (sel_sel_perm _ p) by exact Hla'. now rewrite sel_pinv_r. }
    intros ed _. cbn [fst snd]. rewrite <- (sel_sel_perm _ p) by exact Hla'. now rewrite sel_pinv_r.
  - intros ri a ed _ _ _ _. reflexivity.
Qed.

(** 2: edges of every rule reordered *)
Lemma tree_image_edges G G' (w : env (R:=R)) X xi :
  g_doms G = g_doms G' -> g_labels G = g_labels G' -> Forall2 rule_edges_perm (g_rules G) (g_rules G') ->
  tree_image G G' w w X xi X xi.
Proof.
  intros Hd Hl HF t Ht.
  assert (HF' : Forall2 (fun r r' => exists q, r_lhs r = r_lhs r' /\ r_nodes r = r_nodes r' /\ r_ext r = r_ext r'
                            /\ Permutation q (seq 0 (length (r_edges r)))
                            /\ r_edges r' = map (fun j => nth j (r_edges r) de) q) (g_rules G) (g_rules G')).
  { eapply Forall2_mono; [|exact HF]. intros r r' (H1 & H2 & H3 & H4).
    destruct (perm_index_list de _ _ H4) as (q & Hq1 & Hq2). exists q. auto. }
  destruct (Forall2_ex_list (fun q r r' => r_lhs r = r_lhs r' /\ r_nodes r = r_nodes r' /\ r_ext r = r_ext r'
                            /\ Permutation q (seq 0 (length (r_edges r)))
                            /\ r_edges r' = map (fun j => nth j (r_edges r) de) q)
                            [] dummy_rule dummy_rule _ _ HF') as (qs & Hqs).
  exists (tmap (fun i => i) (fun _ a => a) (fun ri => nth ri qs []) t).
  apply (tmap_sim o Hring G G' (fun l => l) (fun _ idx => idx) _ _ _ (fun _ ed => ed) w w); [| |exact Ht].
  - intros ri Hri. destruct (Hqs ri Hri) as (E1 & E2 & E3 & Hq & E4).
    fold (get_rule G ri) in *. fold (get_rule G' ri) in *.
    unfold rule_tsim. cbn zeta. split; [now rewrite <- (Forall2_len HF)|].
    split; [now symmetry|]. split; [exact Hq|]. split; [exact E4|].
    split.
    { intros ed _. split; [reflexivity|]. unfold is_term. now rewrite Hl. }
    intros a Ha.
    assert (Hs : node_sizes G' (get_rule G' ri) = node_sizes G (get_rule G ri)).
    { unfold node_sizes, dom. now rewrite Hd, E2. }
    rewrite Hs, <- E3. split; [exact Ha|]. split; reflexivity.
  - intros ri a ed _ _ _ _. reflexivity.
Qed.

(** 1: rules listed in another order *)
Lemma tree_image_rules G G' (w : env (R:=R)) X xi :
  g_doms G = g_doms G' -> g_labels G = g_labels G' -> Permutation (g_rules G) (g_rules G') ->
  tree_image G G' w w X xi X xi.
Proof.
  intros Hd Hl Hp t Ht.
  destruct (perm_index_list dummy_rule _ _ (Permutation_sym Hp)) as (q & Hq1 & Hq2).
  pose proof (Permutation_length Hq1) as Hql. rewrite seq_length in Hql.
  pose proof (Permutation_length Hp) as Hpl.
  exists (tmap (fun i => nth i q 0) (fun _ a => a) (kseq G) t).
  apply (tmap_sim o Hring G G' (fun l => l) (fun _ idx => idx) _ _ _ (fun _ ed => ed) w w); [| |exact Ht].
  - intros ri Hri.
    assert (Hs : nth ri q 0 < length (g_rules G')).
    { assert (Hin : In (nth ri q 0) q) by (apply nth_In; lia).
      apply (Permutation_in _ Hq1) in Hin. apply in_seq in Hin. lia. }
    assert (Er : get_rule G' (nth ri q 0) = get_rule G ri).
    { unfold get_rule at 2. rewrite Hq2.
      rewrite nth_indep with (d' := nth 0 (g_rules G') dummy_rule) by (rewrite map_length; lia).
      change (nth 0 (g_rules G') dummy_rule) with ((fun j => nth j (g_rules G') dummy_rule) 0).
      now rewrite map_nth. }
    unfold rule_tsim. cbn zeta. rewrite Er. split; [exact Hs|]. split; [reflexivity|].
    split; [apply Permutation_refl|]. split; [apply list_as_map_nth|].
    split.
    { intros ed _. split; [reflexivity|]. unfold is_term. now rewrite Hl. }
    intros a Ha.
    assert (Hsz : node_sizes G' (get_rule G ri) = node_sizes G (get_rule G ri)).
    { unfold node_sizes, dom. now rewrite Hd. }
    rewrite Hsz. split; [exact Ha|]. split; reflexivity.
  - intros ri a ed _ _ _ _. reflexivity.
Qed.

(** the whole presentation *)
Theorem tree_presentation rho pel pnl G G' (w w' : env (R:=R)) X xi :
  wf_grammar G = true -> presents rho pel pnl G G' -> weights_pres rho pel G w w' ->
  tree_image G G' w w' X xi (pel X) (pmap rho (ltype G X) xi).
Proof.
  intros Hwf (Hrho & G2 & G3 & G4 & Hrel & [Hd23 Hl23] & Hn & [Hd34 Hl34] & He & [Hd45 Hl45] & Hp) Hw.
  apply (tree_image_trans G G G' w (fun l idx => w' (pel l) idx) w' X xi X (pmap rho (ltype G X) xi)).
  { apply tree_image_dom; trivial. }
  apply (tree_image_trans G G2 G' _ w' w' X _ (pel X) (pmap rho (ltype G X) xi)).
  { apply (tree_image_relabel pel pnl); trivial. }
  apply (tree_image_trans G2 G3 G' w' w' w' (pel X) _ (pel X) (pmap rho (ltype G X) xi)).
  { apply tree_image_nodes; trivial. }
  apply (tree_image_trans G3 G4 G' w' w' w' (pel X) _ (pel X) (pmap rho (ltype G X) xi)).
  { apply tree_image_edges; trivial. }
  apply tree_image_rules; trivial.
Qed.
End Stages.
