(** C03_log at the block level: J_log = diag(1/F) J diag(x), cell by cell, for total
    environments.  For the code as it is now ([J_log_contribs]: nan_to_num per contribution) the
    only guard left is finiteness: every rule value is zero or invertible.  For the code before
    b84d904 ([J_log_old_contribs] / [J_log_old_val]: one nan poisons the block) every rule value
    had to be invertible. *)
From Coq Require Import List Arith Bool PeanoNat Lia Ring Ring_theory.
Import ListNotations.
Require Import Fggs.Model.Semiring Fggs.Model.SCC Fggs.Model.SumProduct Fggs.Model.SumProductCheck Fggs.Model.Dual.
Require Import Fggs.Proofs.SCC_ntgraph Fggs.Proofs.BigSum Fggs.Proofs.SP_trees Fggs.Proofs.SP_nonrec
               Fggs.Proofs.SP_code Fggs.Proofs.SP_rename Fggs.Proofs.SP_spe Fggs.Proofs.SP_driver
               Fggs.Proofs.SP_main Fggs.Proofs.Dual_ring Fggs.Proofs.Dual_leibniz Fggs.Proofs.Dual_J
               Fggs.Proofs.Dual_log.

Lemma filter_flat_map {A B} (p : B -> bool) (f : A -> list B) l :
  filter p (flat_map f l) = flat_map (fun x => filter p (f x)) l.
Proof. induction l as [|x l IH]; [reflexivity|]. cbn [flat_map]. now rewrite filter_app, IH. Qed.
Lemma map_flat_map' {A B C} (g : B -> C) (f : A -> list B) l :
  map g (flat_map f l) = flat_map (fun x => map g (f x)) l.
Proof. induction l as [|x l IH]; [reflexivity|]. cbn [flat_map]. now rewrite map_app, IH. Qed.
Lemma flat_map_map' {A B C} (f : B -> list C) (g : A -> B) l :
  flat_map f (map g l) = flat_map (fun x => f (g x)) l.
Proof. induction l as [|x l IH]; [reflexivity|]. cbn [map flat_map]. now rewrite IH. Qed.

Section LogBlock.
Context {R : Type} (o : sr_ops R).
Hypothesis Hr : sr_ring o.
Add Ring RingD11 : (sr_is_srt o Hr).

(** ** sums of options vs sums, related through  v * F = s * x *)
Lemma osum_app l1 l2 : osum o (l1 ++ l2) = oadd o (osum o l1) (osum o l2) \/ (osum o l1 = None /\ osum o (l1 ++ l2) = None).
Proof.
  induction l1 as [|a l1 IH]; cbn [app osum fold_right].
  - left. fold (osum o l2). destruct (osum o l2) as [v|]; cbn [oadd]; [|reflexivity]. f_equal. ring.
  - fold (osum o (l1 ++ l2)). fold (osum o l1). destruct IH as [IH|[IH1 IH2]].
    + rewrite IH. destruct a as [a|], (osum o l1) as [u|], (osum o l2) as [w|]; cbn [oadd]; try (left; reflexivity).
      left. f_equal. ring.
    + right. rewrite IH1, IH2. destruct a; split; reflexivity.
Qed.

Definition rel (F x : R) (g : list (option R)) (h : list R) : Prop :=
  exists v, osum o g = Some v /\ mul o v F = mul o (sum_list o h) x.

Lemma rel_nil F x : rel F x [] [].
Proof. exists (zero o). split; [reflexivity|]. cbn [sum_list]. ring. Qed.
Lemma rel_app F x g1 g2 h1 h2 : rel F x g1 h1 -> rel F x g2 h2 -> rel F x (g1 ++ g2) (h1 ++ h2).
Proof.
  intros (v1 & E1 & H1) (v2 & E2 & H2). exists (add o v1 v2). split.
  - destruct (osum_app g1 g2) as [E|[E _]]; [|congruence]. now rewrite E, E1, E2.
  - assert (Es : sum_list o (h1 ++ h2) = add o (sum_list o h1) (sum_list o h2)).
    { clear -Hr. induction h1 as [|a h1 IH]; cbn [app sum_list]; [ring|]. rewrite IH. ring. }
    rewrite Es. transitivity (add o (mul o v1 F) (mul o v2 F)); [ring|]. rewrite H1, H2. ring.
Qed.
Lemma rel_flat_map {A} F x (l : list A) (g : A -> list (option R)) (h : A -> list R) :
  (forall a, In a l -> rel F x (g a) (h a)) -> rel F x (flat_map g l) (flat_map h l).
Proof.
  induction l as [|a l IH]; intros H; cbn [flat_map]; [apply rel_nil|].
  apply rel_app; [apply H; now left|apply IH; intros b Hb; apply H; now right].
Qed.
Lemma rel_single F x (u : option R) (w : R) :
  (exists v, u = Some v /\ mul o v F = mul o w x) -> rel F x [u] [w].
Proof.
  intros (v & -> & H). exists (add o v (zero o)). split; [reflexivity|]. cbn [sum_list].
  transitivity (mul o v F); [ring|]. rewrite H. ring.
Qed.

Variable G : grammar.
Hypothesis Hwf : wf_grammar G = true.
Variable E : env (R:=R).
Local Notation e := (fun l : nat => Some (E l)).
Context (dv : R -> R -> option R) (ok : R -> Prop).
Hypothesis Hdv : forall a b, ok b -> exists c, dv a b = Some c /\ mul o c b = a.

(** with a total environment every [spe] call succeeds *)
Lemma spe_total_some sizes edges ext : exists f, spe o sizes e edges ext = Some f.
Proof. rewrite spe_unfold. rewrite (proj2 (forallb_forall _ _)) by reflexivity. eexists. reflexivity. Qed.

(** the rule values collected by J_log and their total *)
Definition taus_of (rs : list rule) : list (rule * (list nat -> R)) :=
  flat_map (fun r => match spe o (node_sizes G r) e (r_edges r) (r_ext r) with
                     | Some f => [(r, f)] | None => [] end) rs.

Lemma taus_total rs xi :
  (forall r, In r rs -> wf_rule G r = true /\ In xi (all_assts (lshape G (r_lhs r)))) ->
  sumS o (taus_of rs) (fun rf => snd rf xi) = sumS o rs (fun r => rule_val o G E r xi).
Proof.
  induction rs as [|r rs IH]; intros H; [reflexivity|].
  unfold taus_of. cbn [flat_map]. fold (taus_of rs). rewrite (sumS_app o Hr), sumS_cons, IH by (intros r' Hr'; apply H; now right).
  f_equal. destruct (H r (or_introl eq_refl)) as [Hw Hxi].
  pose proof (spe_spec o Hr G e r xi Hw Hxi) as Hs.
  destruct (spe o (node_sizes G r) e (r_edges r) (r_ext r)) as [f|] eqn:Ef.
  - rewrite (sumS_single o Hr). cbn [snd oapp] in *. rewrite Hs. apply (rule_val_ext o). intros ed a _ _. reflexivity.
  - destruct (spe_total_some (node_sizes G r) (r_edges r) (r_ext r)) as (f & Ef'). congruence.
Qed.

(** ** the common skeleton: any relation between the list of J_log contribution values and the
    list of J contribution values that holds for the empty lists, is preserved by [++] and holds
    for every single (rule, edge) pair, holds for the blocks *)
Section Skeleton.
Variable Rel : list (option R) -> list R -> Prop.
Hypothesis Rel_nil : Rel [] [].
Hypothesis Rel_app : forall g1 g2 h1 h2, Rel g1 h1 -> Rel g2 h2 -> Rel (g1 ++ g2) (h1 ++ h2).
Lemma Rel_flat_map {A} (l : list A) (g : A -> list (option R)) (h : A -> list R) :
  (forall a, In a l -> Rel (g a) (h a)) -> Rel (flat_map g l) (flat_map h l).
Proof.
  induction l as [|a l IH]; intros H; cbn [flat_map]; [apply Rel_nil|].
  apply Rel_app; [apply H; now left|apply IH; intros b Hb; apply H; now right].
Qed.

Variables (n l : nat) (xi yi : list nat).
Hypothesis Hxi : In xi (all_assts (lshape G n)).
Hypothesis Hyi : In yi (all_assts (lshape G l)).
Let F := sumS o (rules_of G n) (fun r => rule_val o G E r xi).
Hypothesis Hleaf : forall r s, In r (rules_of G n) -> In s (splits (r_edges r)) -> fst (snd (fst s)) = l ->
  Rel [omul o (dv (full_prod o G E r s (xi ++ yi))
                  (sumS o (all_assts (lshape G l)) (fun yi' => full_prod o G E r s (xi ++ yi'))))
              (dv (rule_val o G E r xi) F)]
      [loo_prod o G E r s (xi ++ yi)].

Lemma J_log_skeleton comp wi :
  Rel (map (fun c => snd c (xi ++ yi))
           (filter (fun c : nat * nat * (list nat -> option R) => Nat.eqb (fst (fst c)) n && Nat.eqb (snd (fst c)) l)
                   (J_log_old_contribs o dv G comp e wi)))
      (map (fun c => snd c (xi ++ yi))
           (filter (fun c : nat * nat * (list nat -> R) => Nat.eqb (fst (fst c)) n && Nat.eqb (snd (fst c)) l)
                   (J_contribs o G comp e wi))).
Proof.
  set (key := fun c : nat * nat * (list nat -> option R) => Nat.eqb (fst (fst c)) n && Nat.eqb (snd (fst c)) l).
  set (key' := fun c : nat * nat * (list nat -> R) => Nat.eqb (fst (fst c)) n && Nat.eqb (snd (fst c)) l).
  unfold J_log_old_contribs, J_contribs.
  rewrite !filter_flat_map, !map_flat_map'. apply Rel_flat_map. intros n' Hn'.
  fold (taus_of (rules_of G n')).
  rewrite !filter_flat_map, !map_flat_map'.
  assert (Htaus : forall rs, (forall r, In r rs -> In r (rules_of G n')) ->
            Rel
              (flat_map (fun rf : rule * (list nat -> R) =>
                 map (fun c : nat * nat * (list nat -> option R) => snd c (xi ++ yi))
                   (filter key
                      (flat_map (fun s =>
                         if negb (mem comp (fst (snd (fst s)))) && negb wi then []
                         else match spe o (node_sizes G (fst rf)) e (r_edges (fst rf)) (r_ext (fst rf) ++ snd (snd (fst s))) with
                              | Some f => [(n', fst (snd (fst s)),
                                            fun idx => omul o (dv (f idx) (sumS o (all_assts (lshape G (fst (snd (fst s)))))
                                                                            (fun yi0 => f (firstn (length (r_ext (fst rf))) idx ++ yi0))))
                                                              (dv (snd rf (firstn (length (r_ext (fst rf))) idx))
                                                                  (sumS o (taus_of (rules_of G n')) (fun rf0 => snd rf0 (firstn (length (r_ext (fst rf))) idx)))))]
                              | None => []
                              end) (splits (r_edges (fst rf)))))) (taus_of rs))
              (flat_map (fun r =>
                 map (fun c : nat * nat * (list nat -> R) => snd c (xi ++ yi))
                   (filter key'
                      (flat_map (fun s =>
                         if negb (mem comp (fst (snd (fst s)))) && negb wi then []
                         else match spe o (node_sizes G r) e (fst (fst s) ++ snd s) (r_ext r ++ snd (snd (fst s))) with
                              | Some f => [(n', fst (snd (fst s)), f)]
                              | None => []
                              end) (splits (r_edges r))))) rs)).
  { induction rs as [|r rs IH]; intros Hsub; [apply Rel_nil|].
    unfold taus_of. cbn [flat_map]. fold (taus_of rs).
    destruct (spe o (node_sizes G r) e (r_edges r) (r_ext r)) as [fr|] eqn:Efr.
    2:{ destruct (spe_total_some (node_sizes G r) (r_edges r) (r_ext r)) as (f & Ef'). congruence. }
    cbn [app flat_map]. apply Rel_app; [|apply IH; intros r' Hr'; apply Hsub; now right].
    cbn [fst snd].
    assert (Hrin : In r (rules_of G n')) by (apply Hsub; now left).
    pose proof (rules_of_wf G Hwf n' r Hrin) as Hw.
    assert (Hlhs : r_lhs r = n') by (apply in_rules_of in Hrin; tauto).
    rewrite !filter_flat_map, !map_flat_map'. apply Rel_flat_map. intros s Hs.
    destruct (negb (mem comp (fst (snd (fst s)))) && negb wi); [apply Rel_nil|].
    destruct (spe o (node_sizes G r) e (r_edges r) (r_ext r ++ snd (snd (fst s)))) as [ff|] eqn:Eff.
    2:{ destruct (spe_total_some (node_sizes G r) (r_edges r) (r_ext r ++ snd (snd (fst s)))) as (f & Ef'). congruence. }
    destruct (spe o (node_sizes G r) e (fst (fst s) ++ snd s) (r_ext r ++ snd (snd (fst s)))) as [fl|] eqn:Efl.
    2:{ destruct (spe_total_some (node_sizes G r) (fst (fst s) ++ snd s) (r_ext r ++ snd (snd (fst s)))) as (f & Ef'). congruence. }
    cbn [filter]. unfold key, key'. cbn [fst snd].
    destruct (Nat.eqb n' n) eqn:En; cbn [andb]; [|apply Rel_nil].
    destruct (Nat.eqb (fst (snd (fst s))) l) eqn:El; [|apply Rel_nil].
    apply Nat.eqb_eq in En, El. clear Hlhs. subst n'. cbn [map snd].
    assert (Hlhs : r_lhs r = n) by (apply in_rules_of in Hrin; tauto).
    assert (Hlen : length (r_ext r) = length xi).
    { destruct (wf_rule_facts G r Hw) as (_ & _ & _ & Hshape & _).
      rewrite <- Hlhs in Hxi. apply all_assts_length in Hxi. rewrite Hshape, map_length in Hxi. now symmetry. }
    assert (Hfirst : firstn (length (r_ext r)) (xi ++ yi) = xi).
    { rewrite Hlen, firstn_app, Nat.sub_diag, firstn_all. cbn [firstn]. now rewrite app_nil_r. }
    rewrite Hfirst.
    assert (Hxi' : In xi (all_assts (lshape G (r_lhs r)))) by now rewrite Hlhs.
    assert (Hfull : forall idx, ff idx = full_prod o G E r s idx) by (intros idx; unfold full_prod; now rewrite Eff).
    assert (Hloo : forall idx, fl idx = loo_prod o G E r s idx) by (intros idx; unfold loo_prod; now rewrite Efl).
    assert (Htau : fr xi = rule_val o G E r xi).
    { pose proof (spe_spec o Hr G e r xi Hw Hxi') as Hsp. rewrite Efr in Hsp. cbn [oapp] in Hsp. rewrite Hsp.
      apply (rule_val_ext o). intros ed a _ _. reflexivity. }
    assert (Htot : sumS o (taus_of (rules_of G n)) (fun rf0 => snd rf0 xi) = F).
    { unfold F. apply taus_total. intros r' Hr'. split; [now apply (rules_of_wf G Hwf n)|].
      apply in_rules_of in Hr'. destruct Hr' as [_ ->]. exact Hxi. }
    fold (taus_of (rules_of G n)). rewrite Htot, Htau, Hfull, Hloo, El.
    rewrite (sumS_ext o _ (fun yi0 => ff (xi ++ yi0)) (fun yi0 => full_prod o G E r s (xi ++ yi0))) by (intros; apply Hfull).
    now apply Hleaf. }
  apply (Htaus (rules_of G n') (fun r H => H)).
Qed.
End Skeleton.

(** ** the code before b84d904: every rule value must be invertible *)
Theorem J_log_old_block comp wi n l xi yi :
  NoDup comp -> In n comp -> In xi (all_assts (lshape G n)) -> In yi (all_assts (lshape G l)) ->
  (forall r, In r (rules_of G n) -> ok (rule_val o G E r xi)) ->
  ok (sumS o (rules_of G n) (fun r => rule_val o G E r xi)) ->
  exists v,
    J_log_old_val o (J_log_old_contribs o dv G comp e wi) n l (xi ++ yi) = Some v
    /\ mul o v (sumS o (rules_of G n) (fun r => rule_val o G E r xi))
       = mul o (J_val o (J_contribs o G comp e wi) n l (xi ++ yi)) (E l yi).
Proof.
  intros Hnd Hn Hxi Hyi Hok Hokt.
  apply (J_log_skeleton (rel (sumS o (rules_of G n) (fun r => rule_val o G E r xi)) (E l yi))
                        (rel_nil _ _) (rel_app _ _) n l xi yi Hxi).
  intros r s Hrin Hs El. apply rel_single.
  pose proof (rules_of_wf G Hwf n r Hrin) as Hw.
  assert (Hlhs : r_lhs r = n) by (apply in_rules_of in Hrin; tauto).
  rewrite <- El in *.
  apply (J_log_entry o Hr G E dv ok Hdv r s xi yi _ Hw Hs); trivial; [now rewrite Hlhs|now apply Hok].
Qed.

(** ** the code as it is now: a rule whose value is zero contributes nothing; what is left of
    the guard is finiteness (every rule value and the total is zero or invertible) *)
Hypothesis Hzsf : forall a b, add o a b = zero o -> a = zero o /\ b = zero o.
Hypothesis Hnan : dv (zero o) (zero o) = None.

Lemma sumS_zero_inv {A} (ls : list A) (f : A -> R) : sumS o ls f = zero o -> forall x, In x ls -> f x = zero o.
Proof.
  induction ls as [|a ls IH]; intros H x Hx; [destruct Hx|]. rewrite sumS_cons in H.
  apply Hzsf in H. destruct H as [H1 H2]. destruct Hx as [<-|Hx]; [exact H1|now apply IH].
Qed.

Definition rel0 (F x : R) (g : list (option R)) (h : list R) : Prop :=
  mul o (sum_list o (map (nan_to_zero o) g)) F = mul o (sum_list o h) x.
Lemma sum_list_app l1 l2 : sum_list o (l1 ++ l2) = add o (sum_list o l1) (sum_list o l2).
Proof. induction l1 as [|a l1 IH]; cbn [app sum_list]; [ring|]. rewrite IH. ring. Qed.
Lemma rel0_nil F x : rel0 F x [] [].
Proof. unfold rel0. cbn [map sum_list]. ring. Qed.
Lemma rel0_app F x g1 g2 h1 h2 : rel0 F x g1 h1 -> rel0 F x g2 h2 -> rel0 F x (g1 ++ g2) (h1 ++ h2).
Proof.
  unfold rel0. intros H1 H2. rewrite map_app, !sum_list_app.
  transitivity (add o (mul o (sum_list o (map (nan_to_zero o) g1)) F) (mul o (sum_list o (map (nan_to_zero o) g2)) F)); [ring|].
  rewrite H1, H2. ring.
Qed.

Lemma J_val_map_nan (J : list (nat * nat * (list nat -> option R))) n l idx :
  J_val o (map (fun c => (fst c, fun idx => nan_to_zero o (snd c idx))) J) n l idx
  = sum_list o (map (nan_to_zero o) (map (fun c => snd c idx)
        (filter (fun c => Nat.eqb (fst (fst c)) n && Nat.eqb (snd (fst c)) l) J))).
Proof.
  unfold J_val, sumS. induction J as [|c J IH]; [reflexivity|].
  cbn [map filter fst snd]. destruct (Nat.eqb (fst (fst c)) n && Nat.eqb (snd (fst c)) l); cbn [map sum_list fst snd]; now rewrite IH.
Qed.

Theorem J_log_block comp wi n l xi yi :
  NoDup comp -> In n comp -> In xi (all_assts (lshape G n)) -> In yi (all_assts (lshape G l)) ->
  (forall r, In r (rules_of G n) -> rule_val o G E r xi = zero o \/ ok (rule_val o G E r xi)) ->
  (sumS o (rules_of G n) (fun r => rule_val o G E r xi) = zero o \/ ok (sumS o (rules_of G n) (fun r => rule_val o G E r xi))) ->
  mul o (J_val o (J_log_contribs o dv G comp e wi) n l (xi ++ yi)) (sumS o (rules_of G n) (fun r => rule_val o G E r xi))
  = mul o (J_val o (J_contribs o G comp e wi) n l (xi ++ yi)) (E l yi).
Proof.
  intros Hnd Hn Hxi Hyi Hok Hokt. unfold J_log_contribs. rewrite J_val_map_nan.
  set (F := sumS o (rules_of G n) (fun r => rule_val o G E r xi)).
  change (rel0 F (E l yi)
            (map (fun c => snd c (xi ++ yi)) (filter (fun c : nat * nat * (list nat -> option R) => Nat.eqb (fst (fst c)) n && Nat.eqb (snd (fst c)) l) (J_log_old_contribs o dv G comp e wi)))
            (map (fun c => snd c (xi ++ yi)) (filter (fun c : nat * nat * (list nat -> R) => Nat.eqb (fst (fst c)) n && Nat.eqb (snd (fst c)) l) (J_contribs o G comp e wi)))).
  apply (J_log_skeleton (rel0 F (E l yi)) (rel0_nil _ _) (rel0_app _ _) n l xi yi Hxi).
  intros r s Hrin Hs El. fold F.
  pose proof (rules_of_wf G Hwf n r Hrin) as Hw.
  assert (Hlhs : r_lhs r = n) by (apply in_rules_of in Hrin; tauto).
  assert (Hxi' : In xi (all_assts (lshape G (r_lhs r)))) by now rewrite Hlhs.
  assert (Hyi' : In yi (all_assts (lshape G (fst (snd (fst s)))))) by now rewrite El.
  unfold rel0. cbn [map sum_list].
  assert (Hz : rule_val o G E r xi = zero o \/ (ok (rule_val o G E r xi) /\ ok F)).
  { destruct (Hok r Hrin) as [H0|H1]; [now left|]. destruct Hokt as [HF|HF]; [|now right].
    left. exact (sumS_zero_inv _ _ HF r Hrin). }
  destruct Hz as [H0|[H1 H2]].
  - (* a dead rule: 0/0 = nan -> 0, and the leave-one-out product times the edge value is 0 too *)
    pose proof (full_rowsum o Hr G E r s xi Hw Hs Hxi') as Hrow. rewrite H0 in Hrow.
    pose proof (sumS_zero_inv _ _ Hrow yi Hyi') as Hf0. cbn beta in Hf0.
    assert (Hle : mul o (loo_prod o G E r s (xi ++ yi)) (E (fst (snd (fst s))) yi) = zero o)
      by (rewrite <- (full_is_loo_times_edge o Hr G E r s xi yi Hw Hs Hxi' Hyi'); exact Hf0).
    rewrite <- El, Hrow, Hf0, Hnan. cbn [omul nan_to_zero].
    transitivity (zero o); [ring|].
    transitivity (mul o (loo_prod o G E r s (xi ++ yi)) (E (fst (snd (fst s))) yi)); [now rewrite Hle|ring].
  - rewrite <- El.
    destruct (J_log_entry o Hr G E dv ok Hdv r s xi yi F Hw Hs Hxi' Hyi' H1 H2) as (v & Ev & Hv).
    rewrite Ev. cbn [nan_to_zero]. transitivity (mul o v F); [ring|]. rewrite Hv. ring.
Qed.
End LogBlock.
