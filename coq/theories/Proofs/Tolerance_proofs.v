From Coq Require Import QArith Bool List Lqa.
Require Import Fggs.Model.Tolerance.
Local Open Scope Q_scope.

Lemma Qmult_le_l_weak (a x y : Q) : 0 <= a -> x <= y -> a * x <= a * y.
Proof. intros Ha H. rewrite (Qmult_comm a x), (Qmult_comm a y). apply Qmult_le_compat_r; assumption. Qed.

Section Scalar.
Variables a c : Q.
Hypothesis Ha0 : 0 <= a.
Hypothesis Ha1 : a < 1.
Hypothesis Hc : 0 <= c.

Lemma one_minus_a_pos : 0 < 1 - a.
Proof. lra. Qed.

Lemma xstar_fixed : xstar a c == aff a c (xstar a c).
Proof. unfold xstar, aff. field. lra. Qed.

Lemma xstar_nonneg : 0 <= xstar a c.
Proof.
  unfold xstar. apply Qle_shift_div_l; [lra|]. lra.
Qed.

Lemma iter_le_star k : iter a c k <= xstar a c.
Proof.
  induction k as [|k IH]; cbn [iter].
  - apply xstar_nonneg.
  - rewrite xstar_fixed. unfold aff.
    assert (a * iter a c k <= a * xstar a c) by (apply Qmult_le_l_weak; assumption).
    lra.
Qed.

(** the gap to the fixed point is the last increment divided by (1 - a) *)
Lemma gap k : xstar a c - iter a c k == (iter a c (S k) - iter a c k) / (1 - a).
Proof.
  cbn [iter]. unfold aff, xstar. field. lra.
Qed.

Lemma iter_mono k : iter a c k <= iter a c (S k).
Proof.
  induction k as [|k IH]; cbn [iter] in *; unfold aff in *.
  - lra.
  - assert (a * iter a c k <= a * (a * iter a c k + c)) by (apply Qmult_le_l_weak; assumption).
    lra.
Qed.

Theorem stop_bound k tol :
  iter a c (S k) - iter a c k <= tol ->
  xstar a c - tol / (1 - a) <= iter a c k /\ iter a c k <= xstar a c.
Proof.
  intros Hs. split; [|apply iter_le_star].
  pose proof (gap k) as G.
  assert (D : (iter a c (S k) - iter a c k) / (1 - a) <= tol / (1 - a)).
  { unfold Qdiv. apply Qmult_le_compat_r; [assumption|].
    apply Qlt_le_weak, Qinv_lt_0_compat, one_minus_a_pos. }
  lra.
Qed.

End Scalar.

(** the exact iterate at which the code's loop stops is accepted, with no rounding allowance *)
Theorem tol_check_sound a c tol k :
  0 <= a -> a < 1 -> 0 <= c -> 0 <= tol ->
  iter a c (S k) - iter a c k <= tol ->
  tol_check (a, c, tol, 0, iter a c k) = 0%nat.
Proof.
  intros Ha0 Ha1 Hc Ht Hs. unfold tol_check.
  assert (G : Qle_bool 0 a && negb (Qle_bool 1 a) && Qle_bool 0 c && Qle_bool 0 tol = true).
  { rewrite !andb_true_iff, negb_true_iff. repeat split; try (apply Qle_bool_iff; assumption).
    destruct (Qle_bool 1 a) eqn:E; [|reflexivity]. apply Qle_bool_iff in E. lra. }
  rewrite G. cbn [negb].
  destruct (stop_bound a c Ha0 Ha1 Hc k tol Hs) as [L U].
  assert (B : Qle_bool (xstar a c - tol / (1 - a) - 0) (iter a c k) && Qle_bool (iter a c k) (xstar a c + 0) = true).
  { rewrite andb_true_iff. split; apply Qle_bool_iff; lra. }
  rewrite B. reflexivity.
Qed.

(** and a value further away than that is rejected: a relative reading of [tol] (stopping when the
    increment is below tol * (1 + |x|)) returns iterates the check rejects as soon as the values are large *)
Theorem tol_check_rejects a c tol delta obs :
  0 <= a -> a < 1 -> 0 <= c -> 0 <= tol ->
  obs < xstar a c - tol / (1 - a) - delta ->
  tol_check (a, c, tol, delta, obs) = 1%nat.
Proof.
  intros Ha0 Ha1 Hc Ht Hs. unfold tol_check.
  assert (G : Qle_bool 0 a && negb (Qle_bool 1 a) && Qle_bool 0 c && Qle_bool 0 tol = true).
  { rewrite !andb_true_iff, negb_true_iff. repeat split; try (apply Qle_bool_iff; assumption).
    destruct (Qle_bool 1 a) eqn:E; [|reflexivity]. apply Qle_bool_iff in E. lra. }
  rewrite G. cbn [negb].
  destruct (Qle_bool (xstar a c - tol / (1 - a) - delta) obs) eqn:E; [|reflexivity].
  apply Qle_bool_iff in E. lra.
Qed.
