(** C05: closed examples -- the findings as [_refuted] witnesses of the faithful model, their
    positive counterparts, the converse used for detection (an invalid decomposition loses an
    edge), and non-trivial values for the examples beside the theorems. *)
From Coq Require Import List Arith Bool PeanoNat Lia Permutation.
Import ListNotations.
Require Import Fggs.Model.Conj Fggs.Proofs.ConjBase Fggs.Proofs.ConjNames.
Require Import Fggs.Model.TreeDec Fggs.Proofs.TreeDec_graph Fggs.Proofs.TreeDec_tdok Fggs.Model.Factorize
               Fggs.Proofs.Fz_fresh Fggs.Proofs.Fz_rooted Fggs.Proofs.Fz_struct Fggs.Proofs.Fz_main
               Fggs.Proofs.Fz_bridge Fggs.Proofs.Fz_final Fggs.Proofs.Fz_labels.

Definition NT (s : str) (ty : list nat) : elabel := {| el_name := s; el_type := ty; el_term := false |}.
Definition TM (s : str) (ty : list nat) : elabel := {| el_name := s; el_type := ty; el_term := true |}.
Definition ED (i : nat) (l : elabel) (a : list nat) : fedge := {| fe_id := i; fe_lab := l; fe_att := a |}.
(** "S", "t", "u", "S_1" *)
Definition lS := NT [83] [].
Definition lt := TM [116] [0; 0].
Definition lu := TM [117] [0].
Definition lS1 := TM [83; 95; 49] [0; 0].

(** S -> a path 0 - 1 - 2 - 3 of [t] edges *)
Definition path4 : frule :=
  {| fr_lhs := lS; fr_nodes := [(0, 0); (1, 0); (2, 0); (3, 0)];
     fr_edges := [ED 1 lt [0; 1]; ED 2 lt [1; 2]; ED 3 lt [2; 3]]; fr_ext := [] |}.
(** the decompositions of Model/TreeDec.v for min_fill / quickbb and for acb, in canonical order *)
Definition td_mf : ftd := [([2; 3], [1]); ([1; 2], [0; 2]); ([0; 1], [1])].
Definition ords_mf : list (list nat) := [[]; [2]; [1]].
Definition td_acb : ftd := [([1], [1; 2]); ([0; 1], [0]); ([1; 2], [0; 3]); ([2; 3], [2])].
Definition ords_acb : list (list nat) := [[]; [1]; [1]; [2]].

Example td_mf_is_min_fill : option_map canon_ftd (tree_decomposition 0 (primal path4)) = Some td_mf.
Proof. reflexivity. Qed.
Example td_mf_is_quickbb : option_map canon_ftd (tree_decomposition 1 (primal path4)) = Some td_mf.
Proof. reflexivity. Qed.
Example td_acb_is_acb : option_map canon_ftd (tree_decomposition 2 (primal path4)) = Some td_acb.
Proof. reflexivity. Qed.
Example td_mf_valid : td_ok (primal path4) (td_of_ftd td_mf) = true /\ ftd_wfb td_mf = true.
Proof. split; reflexivity. Qed.
Example td_acb_valid : td_ok (primal path4) (td_of_ftd td_acb) = true /\ ftd_wfb td_acb = true.
Proof. split; reflexivity. Qed.

(** the model on [path4]: three rules S_2, S_1, S for min_fill; four for acb; all oracles accept *)
Example path4_min_fill :
  exists rs ls, factorize_rule_model path4 [] td_mf ords_mf = Ok (rs, ls)
    /\ map (fun c => el_name (fr_lhs c)) rs = [[83; 95; 50]; [83; 95; 49]; [83]]
    /\ inline_ok path4 rs = true /\ fresh_ok [[83]; [116]] rs = true /\ nodes_ok path4 td_mf rs = true.
Proof. eexists. eexists. split; [vm_compute; reflexivity|]. repeat split; reflexivity. Qed.
Example path4_acb :
  exists rs ls, factorize_rule_model path4 [] td_acb ords_acb = Ok (rs, ls)
    /\ length rs = 4
    /\ inline_ok path4 rs = true /\ fresh_ok [[83]; [116]] rs = true /\ nodes_ok path4 td_acb rs = true.
Proof. eexists. eexists. split; [vm_compute; reflexivity|]. repeat split; reflexivity. Qed.

Example path4_hyps :
  wf_rule path4 /\ ftd_wfb td_mf = true /\ valid_td (primal path4) (td_of_ftd td_mf)
  /\ exists rs ls, factorize_rule_model path4 [] td_mf ords_mf = Ok (rs, ls) /\ length rs = 3.
Proof.
  split; [|split; [reflexivity|split; [apply td_ok_sound; reflexivity|]]].
  - split; [|split].
    + apply nodupb_NoDup. reflexivity.
    + intros e He. apply subset_incl. revert e He. apply forallb_forall. reflexivity.
    + intros x [].
  - eexists. eexists. split; [vm_compute; reflexivity|reflexivity].
Qed.

(** * F7 (repaired in /repo 207a206): factorize_fgg used to drop [method] *)
Definition g_path : fhrg :=
  {| fh_nlabels := [0]; fh_elabels := [lS; lt]; fh_start := lS; fh_rules := [(lS, [path4])] |}.
Definition fg_path : ffgg := {| ff_hrg := g_path; ff_domains := [(0, 2)]; ff_factors := [([116], 0)] |}.
(** per method, the decomposition that tree_decomposition returns for the grammar's one rule *)
Definition orc_path (m : nat) : list rule_oracle :=
  match m with 0 | 1 => [(td_mf, ords_mf)] | _ => [(td_acb, ords_acb)] end.
Lemma orc_path_genuine m :
  map (fun ro => Some (fst ro)) (orc_path m)
  = map (fun c => option_map canon_ftd (tree_decomposition m (primal c))) (fh_all_rules g_path).
Proof. destruct m as [|[|m]]; reflexivity. Qed.

Definition hrg_of (x : result ffgg) : result fhrg := match x with Ok f => Ok (ff_hrg f) | Err e => Err e end.
(** what honouring the argument means: the decompositions used are those of method [m] *)
Definition method_honoured (fz : nat -> ffgg -> (nat -> list rule_oracle) -> result ffgg)
           (m : nat) (g : ffgg) (orc : nat -> list rule_oracle) : Prop :=
  hrg_of (fz m g orc) = (h <- factorize_hrg_with (ff_hrg g) (orc m) ;; from_hrg_model h).

(** the three entry points honour [method]: factorize_rule takes the decomposition of the
    requested method as its argument by construction; factorize_hrg passes [orc m] to every
    factorize_rule call; factorize_fgg (as of 207a206) passes [m] on *)
Theorem hrg_method_honoured m g orc : factorize_hrg_model m g orc = factorize_hrg_with g (orc m).
Proof. reflexivity. Qed.
Theorem fgg_method_honoured m g orc : method_honoured factorize_fgg_model m g orc.
Proof.
  unfold method_honoured, factorize_fgg_model, factorize_hrg_model.
  destruct (factorize_hrg_with (ff_hrg g) (orc m)) as [h|e]; [|reflexivity]. cbn [bind].
  destruct (from_hrg_model h); reflexivity.
Qed.
(** the code before the repair: refuted ... *)
Theorem fgg_old_method_honoured_refuted :
  exists g orc m,
    (forall k, map (fun ro => Some (fst ro)) (orc k)
               = map (fun c => option_map canon_ftd (tree_decomposition k (primal c))) (fh_all_rules (ff_hrg g)))
    /\ ~ method_honoured factorize_fgg_old_model m g orc.
Proof.
  exists fg_path, orc_path, 2. split; [exact orc_path_genuine|].
  unfold method_honoured. vm_compute. discriminate.
Qed.
(** ... and honoured only under the guard [m = 0] (min_fill, the default) *)
Theorem fgg_old_method_honoured_min_fill g orc : method_honoured factorize_fgg_old_model 0 g orc.
Proof.
  unfold method_honoured, factorize_fgg_old_model, factorize_hrg_model.
  destruct (factorize_hrg_with (ff_hrg g) (orc 0)) as [h|e]; [|reflexivity]. cbn [bind].
  destruct (from_hrg_model h); reflexivity.
Qed.

(** * F22 (repaired in /repo 211579c): a fresh name could be the name of a terminal label of the rule *)
(** S -> the same path with edges labelled by the TERMINAL "S_1" *)
Definition path4c : frule :=
  {| fr_lhs := lS; fr_nodes := [(0, 0); (1, 0); (2, 0); (3, 0)];
     fr_edges := [ED 1 lS1 [0; 1]; ED 2 lS1 [1; 2]; ED 3 lS1 [2; 3]]; fr_ext := [] |}.

(** the code before the repair ([labels.update(rule.rhs.nonterminals())]) raised ValueError ... *)
Theorem fresh_old_refuted :
  exists r t ords, td_ok (primal r) (td_of_ftd t) = true /\ factorize_rule_old_model r [] t ords = Err ValueErr.
Proof. exists path4c, td_mf, ords_mf. split; reflexivity. Qed.
(** ... or, when the terminal sits in another bag, returned a name clash *)
Definition path4d : frule :=
  {| fr_lhs := lS; fr_nodes := [(0, 0); (1, 0); (2, 0); (3, 0)];
     fr_edges := [ED 1 lS1 [0; 1]; ED 2 lt [1; 2]; ED 3 lt [2; 3]]; fr_ext := [] |}.
Theorem fresh_old_refuted_silent :
  exists r t ords rs ls, td_ok (primal r) (td_of_ftd t) = true /\ factorize_rule_old_model r [] t ords = Ok (rs, ls)
    /\ exists c e, In c rs /\ In e (fr_edges r) /\ el_name (fr_lhs c) = el_name (fe_lab e).
Proof.
  exists path4d, td_mf, ords_mf. eexists. eexists. split; [reflexivity|]. split; [vm_compute; reflexivity|].
  eexists. exists (ED 1 lS1 [0; 1]). split; [right; left; reflexivity|]. split; [now left|reflexivity].
Qed.
(** the code as it is now factorises both rules, the fresh names skip "S_1" *)
Example fresh_now_ok :
  (exists rs ls, factorize_rule_model path4c [] td_mf ords_mf = Ok (rs, ls)
                 /\ map (fun c => el_name (fr_lhs c)) rs = [[83; 95; 51]; [83; 95; 50]; [83]])
  /\ (exists rs ls, factorize_rule_model path4d [] td_mf ords_mf = Ok (rs, ls) /\ inline_ok path4d rs = true
                    /\ fresh_ok [[83]; [83; 95; 49]; [116]] rs = true).
Proof. split; eexists; eexists; (split; [vm_compute; reflexivity|]); repeat split; reflexivity. Qed.

(** positive (no guard needed any more): the fresh names differ from the name of the rule's lhs,
    of EVERY edge label of the rule and of every label of the [labels] argument *)
Theorem fresh_names_ok r ords nm labels idx :
  names_ok r ords nm (init_labels r labels) idx ->
  forall j, In j idx ->
    ~ In (el_name (nm j)) (map el_name labels)
    /\ el_name (nm j) <> el_name (fr_lhs r)
    /\ forall e, In e (fr_edges r) -> el_name (nm j) <> el_name (fe_lab e).
Proof.
  intros [n1 n2 n3 n4] j Hj. specialize (n3 j Hj). unfold init_labels in n3. rewrite map_app, in_app_iff in n3.
  cbn [map In] in n3. split; [tauto|]. split; [intro E; apply n3; right; left; now symmetry|].
  intros e He E. apply n3. left. rewrite E. rewrite map_map. apply in_map_iff. exists e. auto.
Qed.

(** * converse, used for detection: an invalid decomposition loses an edge *)
(** the bags {0,1} - {2,3}: the edge 1 - 2 is covered by no bag *)
Definition td_bad : ftd := [([0; 1], [1]); ([2; 3], [0])].
Theorem invalid_td_loses_edge_example :
  td_ok (primal path4) (td_of_ftd td_bad) = false
  /\ exists rs ls, factorize_rule_model path4 [] td_bad [[]; []] = Ok (rs, ls)
       /\ ~ In (ED 2 lt [1; 2]) (flat_map fr_edges rs)
       /\ inline_ok path4 rs = false.
Proof.
  split; [reflexivity|]. eexists. eexists. split; [vm_compute; reflexivity|]. split; [|reflexivity].
  cbn. intros [H|[H|[H|[]]]]; discriminate.
Qed.

(** * F20 (repaired in /repo 450bcaa + 833be06): the label tables used to be rebuilt from the rules *)
(** the grammar [g_path] with one more terminal "u" that no rule uses, bound to a factor *)
Definition g_path_u : fhrg :=
  {| fh_nlabels := [0]; fh_elabels := [lS; lt; lu]; fh_start := lS; fh_rules := [(lS, [path4])] |}.
Definition fg_path_u : ffgg := {| ff_hrg := g_path_u; ff_domains := [(0, 2)]; ff_factors := [([116], 0); ([117], 1)] |}.
(** the code before the repairs: factorize_hrg started from [HRG(g.start)] *)
Theorem hrg_old_labels_refuted :
  exists g orc h, factorize_hrg_old_with g orc = Ok h /\ exists l, In l (fh_elabels g) /\ ~ In l (fh_elabels h).
Proof.
  exists g_path_u, (orc_path 0). eexists. split; [vm_compute; reflexivity|]. exists lu. split; [cbn; tauto|].
  cbn. intros [H|[H|[H|[H|[]]]]]; discriminate.
Qed.
(** the code as it is now keeps the label (and [factors_bound]) *)
Example labels_now_kept :
  exists f, factorize_fgg_model 0 fg_path_u orc_path = Ok f /\ In lu (fh_elabels (ff_hrg f)).
Proof. eexists. split; [vm_compute; reflexivity|]. cbn. tauto. Qed.
