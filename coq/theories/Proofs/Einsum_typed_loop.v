(** C07 on typed operands, part 3: the unification loop of [einsum].

    Invariant ([dinv] / [einv]) of [unify_dims] / [eloop] for operands typed in a common context,
    one index type per einsum index:
    - the state of the unifier stays well typed ([tstate]: the substitution is functional, acyclic
      and type preserving) in an extension of the context, and nothing is warned about
      ([unify_total_typed], through fuel monotonicity: the fuel of the model is an artefact);
    - [index_to_vaxis] holds, for every index seen so far, its first axis;
    - completeness: every coincidence of the axes seen so far (an environment under which every
      axis evaluates like the first axis of its index) extends -- on the fresh axes only -- to an
      environment that satisfies the substitution, and [result_is_zero] is still false
      ([unify_complete_both] lifted along the loop; a failed unification means there is no
      coincidence at all). *)
From Coq Require Import List Arith Lia PeanoNat Bool PArith.
Import ListNotations.
Require Import Fggs.Model.Semiring.
Require Import Fggs.Model.Axis Fggs.Model.AxisCheck Fggs.Model.PTensor Fggs.Model.Einsum Fggs.Model.EinsumCert.
Require Import Fggs.Proofs.Axis_sem Fggs.Proofs.Axis_unify Fggs.Proofs.Axis_complete_gen Fggs.Proofs.Axis_typed Fggs.Proofs.Axis_total.
Require Import Fggs.Proofs.Axis_fuel Fggs.Proofs.Axis_rank.
Require Import Fggs.Proofs.PTensor_sem Fggs.Proofs.PTensor_dense Fggs.Proofs.PTEqual_typed.
Require Import Fggs.Proofs.Einsum_dense Fggs.Proofs.Einsum_envs Fggs.Proofs.Einsum_project Fggs.Proofs.Einsum_loop.
Require Import Fggs.Proofs.Einsum_typed_base Fggs.Proofs.Einsum_typed_prep.

(** * one call of [unify] from a typed state *)
Lemma tstate_below_s G st : tstate G st -> below_s (us_next st) (us_subst st).
Proof.
  intros [CG CB W] k T H. destruct (wts_ty _ _ W k T H) as [Gk HT]. split.
  - destruct (Pos.ltb_spec k (us_next st)) as [L|L]; [exact L|]. exfalso. apply Gk. apply CB. exact L.
  - eapply ty_below; eauto.
Qed.

Lemma ctx_keep G G' nx k : ctx_below G nx -> ctx_ext nx G G' -> G k <> [] -> G' k = G k.
Proof.
  intros CB X Gk. apply X. destruct (Pos.ltb_spec k nx) as [L|L]; [exact L|]. exfalso. apply Gk. apply CB. exact L.
Qed.

Lemma ctx_lt G nx k : ctx_below G nx -> G k <> [] -> (k < nx)%positive.
Proof. intros CB Gk. destruct (Pos.ltb_spec k nx) as [L|L]; [exact L|]. exfalso. apply Gk. apply CB. exact L. Qed.

Lemma unify_step_typed G st e v ps fuel b st' :
  tstate G st -> us_warn st = false -> gprimes ps -> ty G e ps -> ty G v ps ->
  unify fuel e v st = Ok (b, st') ->
  exists G', us_warn st' = false /\ (us_next st <= us_next st')%positive /\ ctx_ext (us_next st) G G' /\ tstate G' st' /\
    (forall rho, inrange rho e -> inrange rho v -> env_ok rho st -> eval rho e = eval rho v -> cgoal b st st' rho).
Proof.
  intros T Wn Gp Te Tv H.
  set (F := Nat.max fuel (tyfuel ps)).
  assert (HF : unify F e v st = Ok (b, st')) by (apply (proj1 (unify_mono_both fuel) F); [unfold F; lia|exact H]).
  destruct (unify_total_typed G e v ps st F ltac:(unfold F; lia) Gp T Te Tv) as (b0 & st0 & G' & E0 & W0 & L0 & X0 & T0).
  rewrite HF in E0. inversion E0; subst b0 st0.
  exists G'. split; [congruence|]. split; [exact L0|]. split; [exact X0|]. split; [exact T0|].
  destruct (proj1 (unify_complete_both F) e v st b st') as [_ C].
  - eapply ty_below; [apply (ts_below _ _ T)|exact Te].
  - eapply ty_below; [apply (ts_below _ _ T)|exact Tv].
  - apply (tstate_below_s G). exact T.
  - exact HF.
  - destruct C as [_ C]; [congruence|]. exact C.
Qed.

(** * lists *)
Lemma dedup_nat_snoc_in seen L l : In l L \/ In l seen -> dedup_nat seen (L ++ [l]) = dedup_nat seen L.
Proof.
  revert seen. induction L as [|x L IH]; intros seen H.
  - simpl. destruct H as [[]|H]. assert (existsb (Nat.eqb l) seen = true) as ->; [|reflexivity].
    apply existsb_exists. exists l. split; [exact H|apply Nat.eqb_refl].
  - simpl. destruct (existsb (Nat.eqb x) seen) eqn:E.
    + apply IH. destruct H as [[->|H]|H]; [right|left; exact H|right; exact H].
      apply existsb_exists in E. destruct E as (y & Hy & E). apply Nat.eqb_eq in E. subst. exact Hy.
    + f_equal. apply IH. destruct H as [[->|H]|H]; [right; left; reflexivity|left; exact H|right; right; exact H].
Qed.

Lemma dedup_nat_snoc_notin seen L l : ~ In l L -> ~ In l seen -> dedup_nat seen (L ++ [l]) = dedup_nat seen L ++ [l].
Proof.
  revert seen. induction L as [|x L IH]; intros seen H1 H2.
  - simpl. assert (existsb (Nat.eqb l) seen = false) as ->; [|reflexivity].
    destruct (existsb (Nat.eqb l) seen) eqn:E; [|reflexivity]. exfalso. apply H2.
    apply existsb_exists in E. destruct E as (y & Hy & E). apply Nat.eqb_eq in E. subst. exact Hy.
  - simpl. destruct (existsb (Nat.eqb x) seen) eqn:E.
    + apply IH; [intros H; apply H1; right; exact H|exact H2].
    + simpl. f_equal. apply IH; [intros H; apply H1; right; exact H|].
      intros [->|H]; [apply H1; left; reflexivity|exact (H2 H)].
Qed.

Lemma NoDup_app_intro {A} (l1 l2 : list A) : NoDup l1 -> NoDup l2 -> (forall x, In x l1 -> In x l2 -> False) -> NoDup (l1 ++ l2).
Proof.
  induction l1 as [|x l1 IH]; intros N1 N2 D; [exact N2|]. inversion N1 as [|? ? Hx N1']; subst. simpl. constructor.
  - intros H. apply in_app_or in H. destruct H as [H|H]; [exact (Hx H)|]. apply (D x); [left; reflexivity|exact H].
  - apply IH; [exact N1'|exact N2|]. intros y H1 H2. apply (D y); [right; exact H1|exact H2].
Qed.

Lemma models_agree r1 r2 (s : subst) :
  (forall k T, In (k, T) s -> r1 k = r2 k /\ forall j, In j (fv T) -> r1 j = r2 j) -> models r1 s -> models r2 s.
Proof.
  intros A M. unfold models in *. rewrite Forall_forall in *. intros [k T] H. simpl. destruct (A k T H) as [Ek ET].
  rewrite <- Ek, <- (eval_ext_fv r1 r2 T ET). exact (M _ H).
Qed.

Lemma inr_s_agree r1 r2 (s : subst) :
  (forall k T, In (k, T) s -> forall j, In j (fv T) -> r1 j = r2 j) -> inr_s r1 s -> inr_s r2 s.
Proof.
  intros A M. unfold inr_s in *. rewrite Forall_forall in *. intros [k T] H. simpl.
  apply (inrange_ext_fv r1 r2 T (A k T H)). exact (M _ H).
Qed.

Section Occ.
Context {R : Type}.
Lemma occurrences_snoc (acc : list (ptensor R)) inps t inp : length acc = length inps ->
  occurrences (acc ++ [t]) (inps ++ [inp]) = occurrences acc inps ++ combine inp (vaxes t).
Proof.
  revert inps. induction acc as [|a acc IH]; intros [|i inps] L; try discriminate.
  - unfold occurrences. simpl. rewrite app_nil_r. reflexivity.
  - unfold occurrences in *. simpl. rewrite <- app_assoc. f_equal. apply IH. simpl in L. lia.
Qed.

Lemma all_vars_snoc (acc : list (ptensor R)) t : all_vars (acc ++ [t]) = all_vars acc ++ paxes t.
Proof. unfold all_vars. rewrite flat_map_app. simpl. rewrite app_nil_r. reflexivity. Qed.
End Occ.

(** * the invariant *)
Section Loop.
Context {R : Type}.
Notation stensor := (stensor (R:=R)).
Variable lty : nat -> list ity.
Hypothesis Hlty : forall l, gprimes (lty l).
Variable nx1 : positive.
Variable d0 : R.

Definition opv (s : lstate) (k : positive) : Prop := (k < nx1)%positive \/ In k (ls_fv s).

(** [rho] is a coincidence of the axes seen so far *)
Definition coinc_on (i2v : list (nat * axis)) (pocc : list (nat * axis)) (rho : env) : Prop :=
  forall l e, In (l, e) pocc -> inrange rho e /\ exists e0, lassoc l i2v = Some e0 /\ eval rho e = eval rho e0.

Record dinv (G : ctx) (s : lstate) (pocc : list (nat * axis)) : Prop := {
  di_t : tstate G (ls_u s);
  di_warn : us_warn (ls_u s) = false;
  di_nx : (nx1 <= us_next (ls_u s))%positive;
  di_fv : forall k, In k (ls_fv s) -> G k <> [];
  di_i2v : forall l e0, lassoc l (ls_i2v s) = Some e0 -> In (l, e0) pocc;
  di_occ : forall l e, In (l, e) pocc ->
             ty G e (lty l) /\ lassoc l (ls_i2v s) <> None /\ (forall k, In k (fv e) -> In k (ls_fv s));
  di_labels : map fst (ls_i2v s) = dedup_nat [] (map fst pocc);
  di_compl : forall rho, coinc_on (ls_i2v s) pocc rho ->
               ls_zero s = false /\ exists rho', (forall k, opv s k -> rho' k = rho k) /\ env_ok rho' (ls_u s) }.

Lemma opv_lt G s pocc k : dinv G s pocc -> opv s k -> (k < us_next (ls_u s))%positive.
Proof.
  intros D [H|H]; [pose proof (di_nx _ _ _ D); lia|].
  eapply ctx_lt; [apply (ts_below _ _ (di_t _ _ _ D))|exact (di_fv _ _ _ D k H)].
Qed.

Lemma unify_dims_typed fuel : forall vs inp s s' G pocc,
  dinv G s pocc -> tys G vs (map lty inp) -> (forall k, In k (flat_map fv vs) -> In k (ls_fv s)) ->
  unify_dims fuel vs inp s = Ok s' ->
  exists G', ctx_ext (us_next (ls_u s)) G G' /\ (us_next (ls_u s) <= us_next (ls_u s'))%positive /\
             ls_fv s' = ls_fv s /\ dinv G' s' (pocc ++ combine inp vs).
Proof.
  induction vs as [|v vs IH]; intros inp s s' G pocc D T Hfv H.
  - simpl in H. inversion H; subst. exists G. split; [apply ctx_ext_refl|]. split; [lia|]. split; [reflexivity|].
    destruct inp; simpl; rewrite app_nil_r; exact D.
  - destruct inp as [|l inp]; [inversion T|]. simpl in T. inversion T as [|? ? ? ? Tv Tvs]; subst.
    pose proof (di_t _ _ _ D) as TS. pose proof (ts_below _ _ TS) as CB.
    cbn [unify_dims] in H. destruct (lassoc l (ls_i2v s)) as [e|] eqn:El.
    + (* the index has been seen: unify with its first axis *)
      destruct (unify fuel e v (ls_u s)) as [[b u1]|] eqn:EU; [|discriminate]. cbn [bind fst snd] in H.
      pose proof (di_i2v _ _ _ D l e El) as Hle. destruct (di_occ _ _ _ D l e Hle) as (Te & _ & Fe).
      destruct (unify_step_typed G (ls_u s) e v (lty l) fuel b u1 TS (di_warn _ _ _ D) (Hlty l) Te Tv EU)
        as (G1 & W1 & L1 & X1 & T1 & C1).
      set (s1 := mkLS (ls_fv s) (ls_i2v s) u1 (ls_zero s || negb b)) in *.
      assert (D1 : dinv G1 s1 (pocc ++ [(l, v)])).
      { split; cbn [ls_u ls_fv ls_i2v ls_zero s1].
        - exact T1.
        - exact W1.
        - pose proof (di_nx _ _ _ D). lia.
        - intros k Hk. rewrite (ctx_keep G G1 _ k CB X1 (di_fv _ _ _ D k Hk)). exact (di_fv _ _ _ D k Hk).
        - intros l' e0 E. apply in_or_app. left. exact (di_i2v _ _ _ D l' e0 E).
        - intros l' e' Hin. apply in_app_or in Hin. destruct Hin as [Hin|[Hin|[]]].
          + destruct (di_occ _ _ _ D l' e' Hin) as (A1 & A2 & A3). split; [eapply ty_ext; eauto|]. split; assumption.
          + inversion Hin; subst l' e'. split; [eapply ty_ext; eauto|]. split; [congruence|].
            intros k Hk. apply Hfv. simpl. apply in_or_app. left. exact Hk.
        - rewrite map_app. simpl. rewrite dedup_nat_snoc_in; [exact (di_labels _ _ _ D)|].
          left. apply in_map_iff. exists (l, e). auto.
        - intros rho Co.
          assert (Co0 : coinc_on (ls_i2v s) pocc rho) by (intros l' e' Hin; apply Co; apply in_or_app; left; exact Hin).
          destruct (di_compl _ _ _ D rho Co0) as (Z & rho' & A & EO).
          assert (Hlv : In (l, v) (pocc ++ [(l, v)])) by (apply in_or_app; right; left; reflexivity).
          destruct (Co l v Hlv) as (Rv & e0 & E0 & Ev).
          rewrite El in E0. inversion E0; subst e0. destruct (Co0 l e Hle) as (Re & _).
          assert (Ae : forall k, In k (fv e) -> rho k = rho' k) by (intros k Hk; symmetry; apply A; right; apply Fe; exact Hk).
          assert (Av : forall k, In k (fv v) -> rho k = rho' k).
          { intros k Hk. symmetry. apply A. right. apply Hfv. simpl. apply in_or_app. left. exact Hk. }
          assert (G0 : cgoal b (ls_u s) u1 rho').
          { apply C1; [exact (inrange_ext_fv rho rho' e Ae Re)|exact (inrange_ext_fv rho rho' v Av Rv)|exact EO|].
            rewrite <- (eval_ext_fv rho rho' e Ae), <- (eval_ext_fv rho rho' v Av). symmetry. exact Ev. }
          destruct b; [|destruct G0]. destruct G0 as (rho'' & X & Rs & M).
          split; [rewrite Z; reflexivity|]. exists rho''. split; [|split; assumption].
          intros k Hk. rewrite (X k); [apply A; exact Hk|]. exact (opv_lt G s pocc k D Hk). }
      destruct (IH inp s1 s' G1 (pocc ++ [(l, v)]) D1) as (G2 & X2 & L2 & F2 & D2).
      * eapply tys_ext; eauto.
      * intros k Hk. apply Hfv. simpl. apply in_or_app. right. exact Hk.
      * exact H.
      * cbn [ls_u ls_fv s1] in *. exists G2. split; [exact (ctx_ext_trans _ _ _ _ _ L1 X1 X2)|]. split; [lia|]. split; [exact F2|].
        rewrite <- app_assoc in D2. exact D2.
    + (* a new index *)
      set (s1 := mkLS (ls_fv s) (ls_i2v s ++ [(l, v)]) (ls_u s) (ls_zero s)) in *.
      assert (Nl : ~ In l (map fst pocc)).
      { intros Hin. apply lassoc_None in El. apply El. rewrite (di_labels _ _ _ D). apply dedup_nat_In. split; [exact Hin|intros []]. }
      assert (D1 : dinv G s1 (pocc ++ [(l, v)])).
      { split; cbn [ls_u ls_fv ls_i2v ls_zero s1].
        - exact TS.
        - exact (di_warn _ _ _ D).
        - exact (di_nx _ _ _ D).
        - exact (di_fv _ _ _ D).
        - intros l' e0 E. rewrite lassoc_app in E. apply in_or_app. destruct (lassoc l' (ls_i2v s)) as [e1|] eqn:E1.
          + inversion E; subst. left. exact (di_i2v _ _ _ D l' e0 E1).
          + simpl in E. destruct (Nat.eqb_spec l l'); [|discriminate]. inversion E; subst. right. left. reflexivity.
        - intros l' e' Hin. apply in_app_or in Hin. destruct Hin as [Hin|[Hin|[]]].
          + destruct (di_occ _ _ _ D l' e' Hin) as (A1 & A2 & A3). split; [exact A1|]. split; [|exact A3].
            rewrite lassoc_app. destruct (lassoc l' (ls_i2v s)); [discriminate|contradiction].
          + inversion Hin; subst l' e'. split; [exact Tv|]. split.
            * rewrite lassoc_app, El. simpl. rewrite Nat.eqb_refl. discriminate.
            * intros k Hk. apply Hfv. simpl. apply in_or_app. left. exact Hk.
        - rewrite !map_app. simpl. rewrite dedup_nat_snoc_notin; [rewrite (di_labels _ _ _ D); reflexivity|exact Nl|intros []].
        - intros rho Co.
          assert (Co0 : coinc_on (ls_i2v s) pocc rho).
          { intros l' e' Hin. destruct (Co l' e' (in_or_app _ _ _ (or_introl Hin))) as (Re & e0 & E0 & Ev). split; [exact Re|].
            destruct (di_occ _ _ _ D l' e' Hin) as (_ & A2 & _). rewrite lassoc_app in E0.
            destruct (lassoc l' (ls_i2v s)) as [e1|]; [|contradiction]. inversion E0; subst. exists e0. split; [reflexivity|exact Ev]. }
          exact (di_compl _ _ _ D rho Co0). }
      destruct (IH inp s1 s' G (pocc ++ [(l, v)]) D1 Tvs) as (G2 & X2 & L2 & F2 & D2).
      * intros k Hk. apply Hfv. simpl. apply in_or_app. right. exact Hk.
      * exact H.
      * cbn [ls_u ls_fv s1] in *. exists G2. split; [exact X2|]. split; [exact L2|]. split; [exact F2|].
        rewrite <- app_assoc in D2. exact D2.
Qed.

(** * the loop over the operands *)
Record einv (G : ctx) (s : lstate) (acc : list stensor) (inps : list (list nat)) : Prop := {
  ei_d : dinv G s (occurrences (pts acc) inps);
  ei_len : length acc = length inps;
  ei_fv : ls_fv s = map fst (all_vars (pts acc));
  ei_nodup : NoDup (ls_fv s);
  ei_ops : Forall2 (op_typed lty G) acc inps;
  ei_dflt : Forall (fun t : stensor => default (st_pt t) = d0) acc }.

Lemma Forall2_op_typed_ext G G' nx (ts : list stensor) inputs :
  ctx_below G nx -> ctx_ext nx G G' -> Forall2 (op_typed lty G) ts inputs -> Forall2 (op_typed lty G') ts inputs.
Proof. intros CB X F. induction F as [|a b l l' Hab _ IHF]; constructor; [eapply op_typed_ext; eauto|exact IHF]. Qed.

Lemma eloop_typed fuel : forall ts inputs s acc s' fts G inps,
  einv G s acc inps -> Forall2 (op_typed lty G) ts inputs -> Forall (fun t : stensor => default (st_pt t) = d0) ts ->
  (forall t, In t ts -> forall k, In k (map fst (paxes (st_pt t))) -> (k < nx1)%positive) ->
  eloop fuel ts inputs s acc = Ok (s', fts) ->
  exists G' new, fts = acc ++ new /\ einv G' s' fts (inps ++ inputs) /\
                 Forall2 (fun t t' : stensor => same_dense (st_pt t) (st_pt t')) ts new.
Proof.
  induction ts as [|t ts IH]; intros inputs s acc s' fts G inps E F Dz Kl H.
  - inversion F; subst. simpl in H. inversion H; subst. exists G, []. rewrite !app_nil_r. split; [reflexivity|]. split; [exact E|constructor].
  - inversion F as [|? inp ? inputs' Ft F']; subst. inversion Dz as [|? ? Dt Dz']; subst. cbn [eloop] in H.
    set (disj := forallb (fun kn : pn => negb (existsb (Pos.eqb (fst kn)) (ls_fv s))) (paxes (st_pt t))) in H.
    destruct (if disj then (t, us_next (ls_u s)) else st_freshen (us_next (ls_u s)) t) as [t' nx] eqn:Et.
    destruct (unify_dims fuel (vaxes (st_pt t')) inp _) as [s1|] eqn:EU; [|discriminate]. cbn [bind] in H.
    pose proof (ei_d _ _ _ _ E) as D. pose proof (di_t _ _ _ D) as TS.
    pose proof (ts_good _ _ TS) as CG. pose proof (ts_below _ _ TS) as CB.
    (* the operand that enters the loop *)
    assert (P : exists G1, ctx_good G1 /\ ctx_below G1 nx /\ (us_next (ls_u s) <= nx)%positive /\ ctx_ext (us_next (ls_u s)) G G1 /\
                  op_typed lty G1 t' inp /\ default (st_pt t') = d0 /\ same_dense (st_pt t) (st_pt t') /\
                  (forall k, In k (map fst (paxes (st_pt t'))) -> ~ In k (ls_fv s)) /\
                  (forall k, In k (map fst (paxes (st_pt t'))) -> (k < nx1)%positive \/ (us_next (ls_u s) <= k)%positive)).
    { destruct disj eqn:Dj.
      - inversion Et; subst t' nx. exists G. split; [exact CG|]. split; [exact CB|]. split; [lia|]. split; [apply ctx_ext_refl|].
        split; [exact Ft|]. split; [exact Dt|]. split; [apply same_dense_refl|]. split.
        + intros k Hk Hin. apply in_map_iff in Hk. destruct Hk as (kn & <- & Hkn). unfold disj in Dj. rewrite forallb_forall in Dj.
          specialize (Dj kn Hkn). apply negb_true_iff in Dj. rewrite (existsb_pos_true _ _ Hin) in Dj. discriminate.
        + intros k Hk. left. exact (Kl t (or_introl eq_refl) k Hk).
      - destruct (st_freshen_typed lty G (us_next (ls_u s)) t inp t' nx CG CB Ft Et) as (G1 & CG1 & CB1 & L1 & X1 & T1 & Df & Sd & Kr).
        exists G1. split; [exact CG1|]. split; [exact CB1|]. split; [exact L1|]. split; [exact X1|]. split; [exact T1|].
        split; [congruence|]. split; [exact Sd|]. split.
        + intros k Hk Hin. destruct (Kr k Hk) as [Lk _]. pose proof (ctx_lt G _ k CB (di_fv _ _ _ D k Hin)). lia.
        + intros k Hk. right. exact (proj1 (Kr k Hk)). }
    destruct P as (G1 & CG1 & CB1 & L1 & X1 & T1 & Df1 & Sd1 & Dj1 & Kr1).
    set (s0 := mkLS (ls_fv s ++ map fst (paxes (st_pt t'))) (ls_i2v s) (with_next (ls_u s) nx) (ls_zero s)) in *.
    destruct T1 as (Wt' & Tt' & Ok').
    assert (D0 : dinv G1 s0 (occurrences (pts acc) inps)).
    { split; cbn [ls_u ls_fv ls_i2v ls_zero s0 with_next us_subst us_next us_warn].
      - split; cbn [us_next us_subst with_next]; [exact CG1|exact CB1|]. eapply wts_ext; [exact CB|exact X1|apply (ts_wts _ _ TS)].
      - exact (di_warn _ _ _ D).
      - pose proof (di_nx _ _ _ D). lia.
      - intros k Hk. apply in_app_or in Hk. destruct Hk as [Hk|Hk].
        + rewrite (ctx_keep G G1 _ k CB X1 (di_fv _ _ _ D k Hk)). exact (di_fv _ _ _ D k Hk).
        + apply in_map_iff in Hk. destruct Hk as ([k' n] & <- & Hk). apply (wf_fv R _ Wt') in Hk.
          exact (proj2 (tys_sized G1 _ _ Tt' k' n Hk)).
      - exact (di_i2v _ _ _ D).
      - intros l e Hin. destruct (di_occ _ _ _ D l e Hin) as (A1 & A2 & A3).
        split; [exact (ty_ext G G1 _ e _ CB X1 A1)|]. split; [exact A2|].
        intros k Hk. apply in_or_app. left. exact (A3 k Hk).
      - exact (di_labels _ _ _ D).
      - intros rho Co. destruct (di_compl _ _ _ D rho Co) as (Z & rho' & A & [Rs M]). split; [exact Z|].
        set (rho'' := fun k => if Pos.leb (us_next (ls_u s)) k then rho k else rho' k).
        assert (Lo : forall k, (k < us_next (ls_u s))%positive -> rho'' k = rho' k).
        { intros k Hk. unfold rho''. destruct (Pos.leb_spec (us_next (ls_u s)) k); [lia|reflexivity]. }
        exists rho''. split.
        + intros k [Hk|Hk].
          * rewrite Lo by (pose proof (di_nx _ _ _ D); lia). apply A. left. exact Hk.
          * apply in_app_or in Hk. destruct Hk as [Hk|Hk].
            -- rewrite Lo by (exact (opv_lt G s _ k D (or_intror Hk))). apply A. right. exact Hk.
            -- destruct (Kr1 k Hk) as [Hl|Hl].
               ++ rewrite Lo by (pose proof (di_nx _ _ _ D); lia). apply A. left. exact Hl.
               ++ unfold rho''. destruct (Pos.leb_spec (us_next (ls_u s)) k); [reflexivity|lia].
        + pose proof (tstate_below_s G _ TS) as BS. split.
          * apply (inr_s_agree rho' rho''); [|exact Rs]. intros k T Hin j Hj. symmetry. apply Lo. exact (proj2 (BS k T Hin) j Hj).
          * apply (models_agree rho' rho''); [|exact M]. intros k T Hin. destruct (BS k T Hin) as [B1 B2].
            split; [symmetry; apply Lo; exact B1|]. intros j Hj. symmetry. apply Lo. exact (B2 j Hj). }
    destruct (unify_dims_typed fuel (vaxes (st_pt t')) inp s0 s1 G1 _ D0 Tt') as (G2 & X2 & L2 & F2 & D2).
    { intros k Hk. cbn [ls_fv s0]. apply in_or_app. right. exact (fv_paxes R _ Wt' k Hk). }
    { exact EU. }
    cbn [ls_u ls_fv s0 with_next us_next] in X2, L2, F2.
    assert (X02 : ctx_ext (us_next (ls_u s)) G G2) by exact (ctx_ext_trans _ _ _ _ _ L1 X1 X2).
    assert (E1 : einv G2 s1 (acc ++ [t']) (inps ++ [inp])).
    { split.
      - unfold pts. rewrite map_app. cbn [map]. rewrite occurrences_snoc by (rewrite map_length; exact (ei_len _ _ _ _ E)). exact D2.
      - rewrite !app_length. simpl. rewrite (ei_len _ _ _ _ E). reflexivity.
      - rewrite F2. unfold pts. rewrite map_app. cbn [map]. rewrite all_vars_snoc, map_app, (ei_fv _ _ _ _ E). reflexivity.
      - rewrite F2. apply NoDup_app_intro; [exact (ei_nodup _ _ _ _ E)|exact (wf_nodup R _ Wt')|]. intros k H1 H2. exact (Dj1 k H2 H1).
      - apply Forall2_app.
        + eapply Forall2_op_typed_ext; [exact CB|exact X02|exact (ei_ops _ _ _ _ E)].
        + constructor; [|constructor]. split; [exact Wt'|]. split; [eapply tys_ext; [exact CB1|exact X2|exact Tt']|exact Ok'].
      - apply Forall_app. split; [exact (ei_dflt _ _ _ _ E)|constructor; [exact Df1|constructor]]. }
    destruct (IH inputs' s1 (acc ++ [t']) s' fts G2 (inps ++ [inp]) E1) as (G' & new & Ef & E' & Sn).
    + eapply Forall2_op_typed_ext; [exact CB|exact X02|exact F'].
    + exact Dz'.
    + intros t0 Ht0. apply Kl. right. exact Ht0.
    + exact H.
    + exists G', (t' :: new). split; [rewrite Ef, <- app_assoc; reflexivity|]. split; [rewrite <- app_assoc in E'; exact E'|].
      constructor; [exact Sd1|exact Sn].
Qed.
End Loop.
