(** Completeness of [unify] on typed patterns, unbounded: [unify] (as the library calls it, from the
    empty substitution, over a whole pattern) terminates, does not warn, and
    - on success returns a most general unifier with respect to [eval]: every in-range environment
      satisfying the bindings gives both patterns the same index tuple (soundness), and every
      coincidence of the two patterns extends, on the fresh variables only, to an environment
      satisfying the bindings (completeness);
    - on failure the two patterns have no coincidence at all.
    Combines Axis_unify.v (soundness), Axis_complete_gen.v (completeness when nothing is warned
    about) and Axis_total.v (typed patterns: total, no warning). *)
From Coq Require Import List Arith Lia PeanoNat Bool PArith.
Import ListNotations.
Require Import Fggs.Model.Axis Fggs.Model.AxisCheck.
Require Import Fggs.Proofs.Axis_sem Fggs.Proofs.Axis_unify Fggs.Proofs.Axis_complete_gen Fggs.Proofs.Axis_typed Fggs.Proofs.Axis_total Fggs.Proofs.Axis_fuel.

Theorem unify_typed_mgu G es fs pss next fuel :
  ctx_good G -> ctx_below G next -> tys G es pss -> tys G fs pss -> Forall gprimes pss ->
  Forall (fun ps => tyfuel ps <= fuel) pss ->
  exists b st', unify_list fuel es fs (ustate0 next) = Ok (b, st') /\ us_warn st' = false /\
    (forall rho, Forall (inrange rho) es -> Forall (inrange rho) fs ->
       if b
       then (models rho (us_subst st') -> map (eval rho) es = map (eval rho) fs) /\
            (map (eval rho) es = map (eval rho) fs ->
             exists rho', extends_to next rho rho' /\ inr_s rho' (us_subst st') /\ models rho' (us_subst st'))
       else map (eval rho) es <> map (eval rho) fs).
Proof.
  intros CG CB Te Tf Gp Hf.
  destruct (unify_total_typed_list G es fs pss next fuel CG CB Te Tf Gp Hf) as (b & st' & G' & E & W & _).
  exists b, st'. split; [exact E|]. split; [exact W|].
  assert (Hlen : length es = length fs) by (rewrite (tys_length _ _ _ Te), (tys_length _ _ _ Tf); reflexivity).
  assert (B : forall x, In x (es ++ fs) -> below next x).
  { intros x Hx. apply in_app_or in Hx.
    destruct Hx as [Hx|Hx]; [exact (tys_below _ _ _ _ CB Te x Hx)|exact (tys_below _ _ _ _ CB Tf x Hx)]. }
  intros rho Re Rf. destruct b.
  - split.
    + intros M. eapply unify_sound; eauto.
    + intros Ev. exact (unify_complete_nowarn fuel es fs next true st' Hlen B E W rho Re Rf Ev).
  - intros Ev. exact (unify_complete_nowarn fuel es fs next false st' Hlen B E W rho Re Rf Ev).
Qed.

(** the same with the fuel the model (and the check function) uses; the side condition compares it
    with the fuel bound computed from the types *)
Corollary unify_typed_mgu_model_fuel G es fs pss next :
  ctx_good G -> ctx_below G next -> tys G es pss -> tys G fs pss -> Forall gprimes pss ->
  Forall (fun ps => tyfuel ps <= unify_fuel es fs) pss ->
  exists b st', unify_list (unify_fuel es fs) es fs (ustate0 next) = Ok (b, st') /\ us_warn st' = false /\
    (forall rho, Forall (inrange rho) es -> Forall (inrange rho) fs ->
       if b
       then (models rho (us_subst st') -> map (eval rho) es = map (eval rho) fs) /\
            (map (eval rho) es = map (eval rho) fs ->
             exists rho', extends_to next rho rho' /\ inr_s rho' (us_subst st') /\ models rho' (us_subst st'))
       else map (eval rho) es <> map (eval rho) fs).
Proof. apply unify_typed_mgu. Qed.

(** fuel that suffices for a whole pattern *)
Definition tyfuels (pss : list (list ity)) : nat := fold_right Nat.max 0 (map tyfuel pss).

Lemma tyfuels_ok pss : Forall (fun ps => tyfuel ps <= tyfuels pss) pss.
Proof.
  induction pss as [|ps pss IH]; constructor; unfold tyfuels in *; simpl; [lia|].
  eapply Forall_impl; [|exact IH]. simpl. intros q Hq. lia.
Qed.

(** Whatever the fuel: if the model answers at all (it does not run out of fuel), the answer is the
    one above.  (The Python code has no fuel; this is the statement about the code.) *)
Theorem unify_typed_mgu_any_fuel G es fs pss next fuel b st' :
  ctx_good G -> ctx_below G next -> tys G es pss -> tys G fs pss -> Forall gprimes pss ->
  unify_list fuel es fs (ustate0 next) = Ok (b, st') ->
  us_warn st' = false /\
  (exists G', (next <= us_next st')%positive /\ ctx_ext next G G' /\ tstate G' st') /\
  (forall rho, Forall (inrange rho) es -> Forall (inrange rho) fs ->
     if b
     then (models rho (us_subst st') -> map (eval rho) es = map (eval rho) fs) /\
          (map (eval rho) es = map (eval rho) fs ->
           exists rho', extends_to next rho rho' /\ inr_s rho' (us_subst st') /\ models rho' (us_subst st'))
     else map (eval rho) es <> map (eval rho) fs).
Proof.
  intros CG CB Te Tf Gp E.
  set (F := Nat.max fuel (tyfuels pss)).
  assert (Hf : Forall (fun ps => tyfuel ps <= F) pss).
  { eapply Forall_impl; [|apply tyfuels_ok]. simpl. intros q Hq. unfold F. lia. }
  assert (E' : unify_list F es fs (ustate0 next) = Ok (b, st')).
  { eapply Fggs.Proofs.Axis_fuel.unify_list_mono; [|exact E]. unfold F. lia. }
  destruct (unify_total_typed_list G es fs pss next F CG CB Te Tf Gp Hf) as (b0 & st0 & G' & E0 & W & L & X & T').
  rewrite E' in E0. inversion E0; subst b0 st0.
  split; [exact W|]. split; [exists G'; auto|].
  destruct (unify_typed_mgu G es fs pss next F CG CB Te Tf Gp Hf) as (b1 & st1 & E1 & _ & H).
  rewrite E' in E1. inversion E1; subst b1 st1. exact H.
Qed.

(** two environments, for patterns over disjoint variables: every coincidence
    [eval rho1 es = eval rho2 fs] is an instance of the unifier, and a failure means disjoint images *)
Corollary unify_typed_mgu_two_envs G es fs pss next fuel :
  ctx_good G -> ctx_below G next -> tys G es pss -> tys G fs pss -> Forall gprimes pss ->
  Forall (fun ps => tyfuel ps <= fuel) pss ->
  (forall k, In k (flat_map fv es) -> ~ In k (flat_map fv fs)) ->
  exists b st', unify_list fuel es fs (ustate0 next) = Ok (b, st') /\ us_warn st' = false /\
    (forall rho1 rho2, Forall (inrange rho1) es -> Forall (inrange rho2) fs ->
       map (eval rho1) es = map (eval rho2) fs ->
       b = true /\ exists rho', (forall k, In k (flat_map fv es) -> rho' k = rho1 k) /\
                                (forall k, In k (flat_map fv fs) -> rho' k = rho2 k) /\
                                models rho' (us_subst st')).
Proof.
  intros CG CB Te Tf Gp Hf Dj.
  destruct (unify_typed_mgu G es fs pss next fuel CG CB Te Tf Gp Hf) as (b & st' & E & W & H).
  exists b, st'. split; [exact E|]. split; [exact W|].
  intros rho1 rho2 R1 R2 Ev.
  set (rho := fun k => if existsb (Pos.eqb k) (flat_map fv es) then rho1 k else rho2 k).
  assert (A1 : forall k, In k (flat_map fv es) -> rho k = rho1 k).
  { intros k Hk. unfold rho. assert (existsb (Pos.eqb k) (flat_map fv es) = true) as ->; [|reflexivity].
    apply existsb_exists. exists k. split; [exact Hk|apply Pos.eqb_refl]. }
  assert (A2 : forall k, In k (flat_map fv fs) -> rho k = rho2 k).
  { intros k Hk. unfold rho. destruct (existsb (Pos.eqb k) (flat_map fv es)) eqn:X; [|reflexivity].
    apply existsb_exists in X. destruct X as (k' & Hk' & X). apply Pos.eqb_eq in X. subst k'. exfalso. exact (Dj k Hk' Hk). }
  assert (Re : Forall (inrange rho) es).
  { rewrite Forall_forall in *. intros x Hx. apply (inrange_ext_fv rho1); [|auto]. intros k Hk. symmetry. apply A1. apply in_flat_map. eauto. }
  assert (Rf : Forall (inrange rho) fs).
  { rewrite Forall_forall in *. intros x Hx. apply (inrange_ext_fv rho2); [|auto]. intros k Hk. symmetry. apply A2. apply in_flat_map. eauto. }
  assert (Ev' : map (eval rho) es = map (eval rho) fs).
  { transitivity (map (eval rho1) es); [apply map_ext_in; intros x Hx; apply eval_ext_fv; intros k Hk; apply A1; apply in_flat_map; eauto|].
    rewrite Ev. apply map_ext_in. intros x Hx. apply eval_ext_fv. intros k Hk. symmetry. apply A2. apply in_flat_map. eauto. }
  specialize (H rho Re Rf). destruct b; [|contradiction].
  split; [reflexivity|]. destruct H as [_ H]. destruct (H Ev') as (rho' & X & _ & M).
  exists rho'. split; [|split; [|exact M]].
  - intros k Hk. rewrite <- A1 by exact Hk. apply X. apply in_flat_map in Hk. destruct Hk as (x & Hx & Hk).
    exact (tys_below _ _ _ _ CB Te x Hx k Hk).
  - intros k Hk. rewrite <- A2 by exact Hk. apply X. apply in_flat_map in Hk. destruct Hk as (x & Hx & Hk).
    exact (tys_below _ _ _ _ CB Tf x Hx k Hk).
Qed.

(** the hypotheses are satisfiable *)
Example unify_typed_mgu_ex :
  let G := ex_ctx in
  let pss := [[TAtom 2; TAtom 3; TSum [TAtom 2; TAtom 3]]] in
  tys G [Prod [Phys 1 2; Phys 2 15]] pss /\ Forall gprimes pss /\ Forall (fun ps => tyfuel ps <= 40) pss /\
  ctx_good G /\ ctx_below G 4.
Proof.
  destruct ty_ex as (T1 & _ & Gp & CG & CB). cbv zeta. split; [constructor; [exact T1|constructor]|].
  split; [constructor; [exact Gp|constructor]|]. split; [constructor; [vm_compute; lia|constructor]|]. split; assumption.
Qed.
