(** Elimination orders and separators -- the graph theory behind the completeness of the
    Arnborg-Corneil-Proskurowski dynamic programme ([acb_connected]).

    [kelim g k D]: the vertices of [D] can be eliminated from [g], in some order, with all
    degrees at elimination time <= k.  For a component D of g - S this is the semantic content
    of a YES cell (S, D) of the chart: "G[D + S] + clique(S) is a partial k-tree with S in one
    bag" (the neighbours of D-vertices during the elimination all lie in D + S, and edges inside
    S never change a degree of a D-vertex).

    - [restrict_order]: eliminating only the vertices of a set C that is closed under
      neighbours outside X, in the induced order, never needs larger degrees (the skipped
      vertices are not adjacent to C: eliminations in different components of g - X are
      independent);
    - [conn_eliminate]: a connected set stays connected when one of its vertices is eliminated;
    - [last_sees_all]: when a connected set is eliminated, its last vertex is, at that time,
      adjacent to every outside neighbour of the set (so the set has at most k outside
      neighbours if the degrees are <= k). *)
From Coq Require Import List Arith Bool PeanoNat Lia Permutation.
Import ListNotations.
Require Import Fggs.Model.TreeDec Fggs.Proofs.TreeDec_graph Fggs.Proofs.TreeDec_tdok
               Fggs.Proofs.TreeDec_elim Fggs.Proofs.TreeDec_qbb Fggs.Proofs.TreeDec_cc
               Fggs.Proofs.TreeDec_acbopt_cc.

Definition kelim (g : graph) (k : nat) (D : list nat) : Prop :=
  exists pi, NoDup pi /\ (forall x, In x pi <-> In x D) /\ elim_width g pi <= k.

Lemma kelim_ext g k D D' : (forall x, In x D <-> In x D') -> kelim g k D -> kelim g k D'.
Proof.
  intros E [pi [H1 [H2 H3]]]. exists pi. split; auto. split; auto. intro x. rewrite H2. apply E.
Qed.

(** * lists *)
Lemma NoDup_app_iff {A} (a b : list A) :
  NoDup (a ++ b) <-> NoDup a /\ NoDup b /\ (forall x, In x a -> ~ In x b).
Proof.
  induction a as [|x a IH]; cbn.
  - split; [intro H; repeat split; auto; constructor|tauto].
  - split.
    + intro H. inversion H as [|? ? Hx Hn]; subst. apply IH in Hn. destruct Hn as [H1 [H2 H3]].
      split; [constructor; auto; intro; apply Hx, in_or_app; auto|]. split; auto.
      intros y [<-|Hy]; auto. intro Hb. apply Hx, in_or_app; auto.
    + intros [H1 [H2 H3]]. inversion H1 as [|? ? Hx Hn]; subst. constructor.
      * intro H. apply in_app_or in H. destruct H as [H|H]; auto. apply (H3 x); auto.
      * apply IH. split; auto.
Qed.
Lemma NoDup_same_length (a b : list nat) : NoDup a -> NoDup b -> (forall x, In x a <-> In x b) ->
  length a = length b.
Proof.
  intros Na Nb E. apply Nat.le_antisymm; apply NoDup_incl_length; auto; intros x Hx; now apply E.
Qed.

(** * elimination sequences *)
Lemma gverts_elim_seq_In a : forall g x,
  In x (gverts (elim_seq g a)) <-> In x (gverts g) /\ ~ In x a.
Proof.
  induction a as [|v a IH]; intros g x; cbn [elim_seq In].
  - tauto.
  - rewrite IH, gverts_eliminate, set_remove_In. intuition.
Qed.
Lemma length_elim_seq a : forall g, NoDup (gverts g) -> NoDup a -> incl a (gverts g) ->
  length (elim_seq g a) + length a = length g.
Proof.
  induction a as [|v a IH]; intros g Hk Na Ia; cbn [elim_seq length]; [lia|].
  inversion Na as [|? ? Hv Na']; subst.
  assert (Hvg : In v (gverts g)) by (apply Ia; cbn; auto).
  pose proof (length_eliminate g v Hk Hvg) as L.
  assert (E : length (elim_seq (eliminate_node g v) a) + length a = length (eliminate_node g v)).
  { apply IH; auto.
    - rewrite gverts_eliminate. now apply set_remove_NoDup.
    - intros x Hx. rewrite gverts_eliminate. apply set_remove_In. split; [apply Ia; cbn; auto|].
      intro; subst; auto. }
  lia.
Qed.
Lemma elim_width_prefix g a b : elim_width g a <= elim_width g (a ++ b).
Proof. rewrite elim_width_app. lia. Qed.

(** * independence of the eliminations in different components *)
Lemma restrict_order X (inC : nat -> bool) : forall pi g1 g2,
  wf_graph g1 -> wf_graph g2 ->
  (forall z y, inC z = true -> (In y (nbrs g1 z) <-> In y (nbrs g2 z))) ->
  (forall z y, inC z = true -> In y (nbrs g1 z) -> inC y = true \/ In y X) ->
  (forall z, inC z = true -> ~ In z X) ->
  (forall y, In y pi -> ~ In y X) ->
  elim_width g2 (filter inC pi) <= elim_width g1 pi.
Proof.
  induction pi as [|y pi IH]; intros g1 g2 W1 W2 Hag Hcl HX Hpi; [cbn; lia|].
  cbn [filter]. destruct (inC y) eqn:Ey.
  - cbn [elim_width].
    assert (Hd : deg g2 y = deg g1 y).
    { unfold deg. apply NoDup_same_length; [apply W2|apply W1|]. intro x. symmetry. now apply Hag. }
    rewrite Hd. apply Nat.max_le_compat_l. apply IH.
    + now apply wf_eliminate.
    + now apply wf_eliminate.
    + intros z w Hz. rewrite !In_nbrs_eliminate by auto.
      rewrite (Hag z w Hz), (Hag y z Ey), (Hag y w Ey). reflexivity.
    + intros z w Hz Hw. apply In_nbrs_eliminate in Hw; auto.
      destruct Hw as [_ [_ [Hw|[_ [_ Hw]]]]]; [apply (Hcl z w Hz Hw)|apply (Hcl y w Ey Hw)].
    + exact HX.
    + intros z Hz. apply Hpi. cbn; auto.
  - cbn [elim_width]. etransitivity; [|apply Nat.le_max_r]. apply IH; auto.
    + now apply wf_eliminate.
    + assert (Hny : forall z, inC z = true -> ~ In y (nbrs g1 z)).
      { intros z Hz Hy. destruct (Hcl z y Hz Hy) as [H|H]; [congruence|].
        apply (Hpi y); cbn; auto. }
      intros z w Hz. rewrite <- (Hag z w Hz). rewrite In_nbrs_eliminate by auto. split.
      * intros [_ [_ [H|[_ [H _]]]]]; auto. exfalso. apply (Hny z Hz). now apply (wf_sym g1 W1).
      * intro H. split; [intro; subst; congruence|]. split; [intro; subst; exact (Hny z Hz H)|auto].
    + intros z w Hz Hw. apply In_nbrs_eliminate in Hw; auto.
      destruct Hw as [_ [_ [Hw|[_ [Hw _]]]]]; [apply (Hcl z w Hz Hw)|].
      exfalso. destruct (Hcl z y Hz) as [H|H]; [now apply (wf_sym g1 W1)|congruence|].
      apply (Hpi y); cbn; auto.
    + intros z Hz. apply Hpi. cbn; auto.
Qed.

(** the special case used throughout: one graph, C closed under neighbours outside X *)
Lemma restrict_order_closed g X C pi : wf_graph g -> closed_in g X C ->
  (forall z, In z C -> ~ In z X) -> (forall y, In y pi -> ~ In y X) ->
  elim_width g (filter (fun z => mem z C) pi) <= elim_width g pi.
Proof.
  intros W Hcl HX Hpi. apply (restrict_order X); auto.
  - intros; reflexivity.
  - intros z y Hz Hy. apply mem_In in Hz. destruct (Hcl z y Hz Hy) as [H|H]; auto.
    left. now apply mem_In.
  - intros z Hz. apply HX. now apply mem_In.
Qed.

(** * connected sets under elimination *)
Lemma connP_ext g (S S' : nat -> Prop) : (forall x, S x <-> S' x) -> connP g S -> connP g S'.
Proof.
  intros E H a b Ha Hb. eapply walk_mono; [|apply (H a b); now apply E].
  intros p q [H1 [H2 H3]]. split; [now apply E|]. split; [now apply E|auto].
Qed.

Lemma conn_eliminate g (S : nat -> Prop) y : wf_graph g -> connP g S ->
  connP (eliminate_node g y) (fun x => S x /\ x <> y).
Proof.
  intros W H.
  set (S' := fun x => S x /\ x <> y). set (R' := adjin (eliminate_node g y) S').
  assert (Claim : forall a b, walk (adjin g S) a b -> b <> y ->
            (a <> y -> walk R' a b) /\
            (forall p, a = y -> S p -> p <> y -> In p (nbrs g y) -> walk R' p b)).
  { intros a b Wk. induction Wk as [a|a c b [Ha [Hc Hac]] Wk IH]; intro Hb.
    - split; [constructor|]. intros p E. congruence.
    - destruct (IH Hb) as [IH1 IH2].
      assert (Hca : c <> a) by (intro; subst; now apply (wf_irrefl g W a)).
      split.
      + intro Hay. destruct (Nat.eq_dec c y) as [Ec|Ec].
        * apply (IH2 a Ec Ha Hay). subst c. now apply (wf_sym g W).
        * eapply walk_cons; [|apply IH1; exact Ec]. split; [split; auto|]. split; [split; auto|].
          apply In_nbrs_eliminate; auto.
      + intros p Ey Hp Hpy Hpn. subst a. destruct (Nat.eq_dec p c) as [->|Hpc]; [apply IH1; auto|].
        eapply walk_cons; [|apply IH1; auto]. split; [split; auto|]. split; [split; auto|].
        apply In_nbrs_eliminate; [exact W|]. split; [exact Hpy|]. split; [exact Hca|]. right.
        split; [exact Hpc|]. split; [exact Hpn|exact Hac]. }
  intros a b [Ha Hay] [Hb Hby]. exact (proj1 (Claim a b (H a b Ha Hb) Hby) Hay).
Qed.

Lemma conn_elim_seq rho : forall g (S : nat -> Prop), wf_graph g -> connP g S ->
  connP (elim_seq g rho) (fun x => S x /\ ~ In x rho).
Proof.
  induction rho as [|y rho IH]; intros g S W H; cbn [elim_seq].
  - eapply connP_ext; [|exact H]. intro x. cbn. tauto.
  - eapply connP_ext; [|apply (IH _ _ (wf_eliminate g y W) (conn_eliminate g S y W H))].
    intro x. cbn. intuition.
Qed.

(** outside neighbours of a connected set survive the elimination of one of its vertices *)
Lemma nbr_eliminate g (S : nat -> Prop) y w : wf_graph g -> connP g S -> S y ->
  (exists z, S z /\ z <> y) -> ~ S w -> (exists x, S x /\ In w (nbrs g x)) ->
  exists x, (S x /\ x <> y) /\ In w (nbrs (eliminate_node g y) x).
Proof.
  intros W H Hy [z [Hz Hzy]] Hw [x [Hx Hwx]].
  assert (Hwy : w <> y) by (intro; subst; auto).
  destruct (Nat.eq_dec x y) as [->|Hxy].
  - (* y has a neighbour in S *)
    assert (Hn : exists y', S y' /\ In y' (nbrs g y)).
    { pose proof (H y z Hy Hz) as Wk. inversion Wk as [|? c ? [_ [Hc Hyc]] _]; subst; [congruence|]. eauto. }
    destruct Hn as [y' [Hy' Hyy']].
    assert (Hy'y : y' <> y) by (intro; subst; now apply (wf_irrefl g W y)).
    exists y'. split; auto. apply In_nbrs_eliminate; auto. split; auto. split; auto. right.
    split; [intro; subst; auto|auto].
  - exists x. split; auto. apply In_nbrs_eliminate; auto.
Qed.

(** the last vertex of a connected set sees all outside neighbours of the set *)
Lemma last_sees_all rho : forall g (S : nat -> Prop) d, wf_graph g -> connP g S -> S d ->
  ~ In d rho -> NoDup rho -> (forall x, In x rho -> S x) -> (forall x, S x -> In x rho \/ x = d) ->
  forall w, ~ S w -> (exists x, S x /\ In w (nbrs g x)) -> In w (nbrs (elim_seq g rho) d).
Proof.
  induction rho as [|y rho IH]; intros g S d W H Hd Hdr Nr Hin Hall w Hw Hex; cbn [elim_seq].
  - destruct Hex as [x [Hx Hwx]]. destruct (Hall x Hx) as [[]|E]. subst x. exact Hwx.
  - inversion Nr as [|? ? Hyr Nr']; subst.
    assert (Hdy : d <> y) by (intro; subst; apply Hdr; cbn; auto).
    apply (IH (eliminate_node g y) (fun x => S x /\ x <> y)).
    + now apply wf_eliminate.
    + now apply conn_eliminate.
    + split; auto.
    + intro Hd'. apply Hdr. cbn; auto.
    + exact Nr'.
    + intros x Hx. split; [apply Hin; cbn; auto|]. intro; subst; auto.
    + intros x [Hx Hxy]. destruct (Hall x Hx) as [[E|Hr]|E]; auto. congruence.
    + intros [Hs _]. auto.
    + apply (nbr_eliminate g S y w W H); auto.
      * apply Hin. cbn; auto.
      * exists d. auto.
Qed.

(** hypotheses satisfiable: the component {2,3} of the path 0-1-2-3 minus vertex 1 *)
Example kelim_example : kelim [(0,[1]);(1,[0;2]);(2,[1;3]);(3,[2])] 1 [2;3].
Proof. exists [3;2]. split; [repeat constructor; cbn; intuition congruence|]. split; [cbn; tauto|]. cbn. lia. Qed.
