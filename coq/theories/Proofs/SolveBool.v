(** C09 -- Boolean semiring: the series sum_{k<=N} A^k b reaches the least solution at
    N = dim (an increasing chain in {0,1}^n is stationary after at most n strict steps). *)
From Coq Require Import List Arith Lia Bool PeanoNat.
Import ListNotations.
Require Import Fggs.Model.Semiring Fggs.Model.Solve.
Require Import Fggs.Proofs.SolveElim Fggs.Proofs.SolveRefine.

(** counting the true positions of a predicate on a list *)
Lemma filter_len_mono {A} (f g : A -> bool) l :
  (forall x, In x l -> f x = true -> g x = true) -> length (filter f l) <= length (filter g l).
Proof.
  induction l as [|x l IH]; intros H; [apply le_n|]. cbn.
  assert (IH' : length (filter f l) <= length (filter g l)) by (apply IH; intros; apply H; [now right|assumption]).
  destruct (f x) eqn:Ef.
  - rewrite (H x (or_introl eq_refl) Ef). cbn. lia.
  - destruct (g x); cbn; lia.
Qed.
Lemma filter_len_strict {A} (f g : A -> bool) l :
  (forall x, In x l -> f x = true -> g x = true) ->
  (exists x, In x l /\ f x = false /\ g x = true) -> length (filter f l) < length (filter g l).
Proof.
  induction l as [|x l IH]; intros H [y [Hy [Hf Hg]]]; [destruct Hy|].
  assert (M : length (filter f l) <= length (filter g l))
    by (apply filter_len_mono; intros; apply H; [now right|assumption]).
  cbn. destruct Hy as [->|Hy].
  - rewrite Hf, Hg. cbn. lia.
  - assert (S' : length (filter f l) < length (filter g l)).
    { apply IH; [intros; apply H; [now right|assumption]|exists y; auto]. }
    destruct (f x) eqn:Ef.
    + rewrite (H x (or_introl eq_refl) Ef). cbn. lia.
    + destruct (g x); cbn; lia.
Qed.
Lemma filter_len_le {A} (f : A -> bool) l : length (filter f l) <= length l.
Proof. induction l as [|x l IH]; [apply le_n|]. cbn. destruct (f x); cbn; lia. Qed.
Lemma all_or_diff {A} (f g : A -> bool) l :
  (forall x, In x l -> f x = g x) \/ (exists x, In x l /\ f x <> g x).
Proof.
  induction l as [|x l [IH|[y [Hy Hne]]]]; [left; intros x []| |].
  - destruct (bool_dec (f x) (g x)) as [E|E].
    + left. intros y [<-|Hy]; auto.
    + right. exists x. split; [now left|exact E].
  - right. exists y. split; [now right|exact Hne].
Qed.

Section BoolSeries.
Hypothesis Hring : sr_ring bool_ops.
Hypothesis Hord : sr_ordered bool_ops.
Hypothesis Hstar : sr_star bool_ops.

Variable n : nat.
Variable a : nat -> nat -> bool.
Variable b : nat -> bool.
Let f (k : nat) : nat -> bool := ser bool_ops nat (seq 0 n) a b k.
Let cnt (g : nat -> bool) : nat := length (filter g (seq 0 n)).

Lemma f_mono k i : f k i = true -> f (S k) i = true.
Proof. exact (ser_mono_step bool_ops Hring nat Hord (seq 0 n) a b k i). Qed.

Lemma f_step_ext k k' : (forall i, i < n -> f k i = f k' i) -> forall i, f (S k) i = f (S k') i.
Proof.
  intros E i. unfold f. cbn [ser]. unfold affF. f_equal. apply sumS_ext.
  intros j Hj. apply in_seq in Hj. fold (f k j). fold (f k' j). rewrite E by lia. reflexivity.
Qed.

Lemma f_stationary k : (forall i, i < n -> f k i = f (S k) i) ->
  forall m i, i < n -> f (m + k) i = f k i.
Proof.
  intros E m. induction m as [|m IH]; intros i Hi; [reflexivity|].
  cbn [Nat.add]. rewrite (f_step_ext (m + k) k IH i). symmetry. apply E. exact Hi.
Qed.

Lemma chain_progress k : (exists j, j < k /\ forall i, i < n -> f j i = f (S j) i) \/ k <= cnt (f k).
Proof.
  induction k as [|k [[j [Hj E]]|IH]]; [right; lia| |].
  - left. exists j. split; [lia|exact E].
  - destruct (all_or_diff (f k) (f (S k)) (seq 0 n)) as [E|[i [Hi Hne]]].
    + left. exists k. split; [lia|]. intros i Hi. apply E. apply in_seq. lia.
    + right. unfold cnt.
      assert (L : length (filter (f k) (seq 0 n)) < length (filter (f (S k)) (seq 0 n))).
      { apply filter_len_strict; [intros x _; apply f_mono|].
        exists i. split; [exact Hi|].
        destruct (f k i) eqn:E1; [rewrite (f_mono k i E1) in Hne; congruence|].
        destruct (f (S k) i); [auto|congruence]. }
      unfold cnt in IH. lia.
Qed.

Lemma chain_stationary : exists j, j <= n /\ forall i, i < n -> f j i = f (S j) i.
Proof.
  destruct (chain_progress (S n)) as [[j [Hj E]]|H].
  - exists j. split; [lia|exact E].
  - exfalso. unfold cnt in H. pose proof (filter_len_le (f (S n)) (seq 0 n)) as L.
    rewrite seq_length in L. lia.
Qed.

(** the n-th partial sum is a fixed point of x |-> A x + b *)
Lemma f_n_fixed : forall i, i < n -> f n i = f (S n) i.
Proof.
  destruct chain_stationary as [j [Hj E]]. intros i Hi.
  replace n with ((n - j) + j) at 1 by lia. rewrite (f_stationary j E (n - j) i Hi).
  replace (S n) with ((S n - j) + j) by lia. rewrite (f_stationary j E (S n - j) i Hi). reflexivity.
Qed.
End BoolSeries.

(** C09_least_is_series, equality at N = dim in bool *)
Theorem bool_series_exact :
  sr_ring bool_ops -> sr_ordered bool_ops -> sr_star bool_ops ->
  forall n A b i, i < n ->
    get1 bool_ops (series bool_ops n A b n) i = get1 bool_ops (solve_model bool_ops n A b) i.
Proof.
  intros Hring Hord Hstar n A b i Hi.
  apply (le_antisym bool_ops Hord); [apply series_le_solve; assumption|].
  apply (solve_model_least bool_ops Hring Hord Hstar n A b (get1 bool_ops (series bool_ops n A b n)));
    [|exact Hi].
  intros k Hk.
  rewrite (sum_n_sumS bool_ops).
  rewrite (sumS_ext bool_ops nat (seq 0 n) _
             (fun j => mul bool_ops (get2 bool_ops A k j)
                           (ser bool_ops nat (seq 0 n) (get2 bool_ops A) (get1 bool_ops b) n j))).
  2:{ intros j Hj. apply in_seq in Hj. rewrite series_ser by lia. reflexivity. }
  rewrite series_ser by exact Hk.
  change (add bool_ops (sumS bool_ops nat (seq 0 n)
            (fun j => mul bool_ops (get2 bool_ops A k j)
                          (ser bool_ops nat (seq 0 n) (get2 bool_ops A) (get1 bool_ops b) n j)))
            (get1 bool_ops b k))
    with (ser bool_ops nat (seq 0 n) (get2 bool_ops A) (get1 bool_ops b) (S n) k).
  rewrite <- (f_n_fixed Hring Hord n (get2 bool_ops A) (get1 bool_ops b) k Hk).
  apply (le_refl bool_ops Hord).
Qed.
