(** C01: [spe] (= sum_product_edges) computes [rule_val]. *)
From Coq Require Import List Arith Bool PeanoNat Lia Permutation Ring Ring_theory.
Import ListNotations.
Require Import Fggs.Model.Semiring Fggs.Model.SCC Fggs.Model.SumProduct.
Require Import Fggs.Proofs.SCC_ntgraph Fggs.Proofs.BigSum Fggs.Proofs.SP_trees Fggs.Proofs.SP_code
               Fggs.Proofs.SP_rename.

Section Spe.
Context {R : Type} (o : sr_ops R).
Hypothesis Hr : sr_ring o.
Add Ring RingR4 : (sr_is_srt o Hr).

(** value of an edge under a partial environment: a label without value counts as zero *)
Definition oval (e : nat -> option (list nat -> R)) (ed : nat * list nat) (a : list nat) : R :=
  match e (fst ed) with Some f => f (sel a (snd ed)) | None => zero o end.

Definition eye_prod (pairs : list (nat * nat)) (a : list nat) : R :=
  prodS o pairs (fun p => eye o (nth (fst p) a 0) (nth (snd p) a 0)).
Definition edge_prod (e : nat -> option (list nat -> R)) (edges : list (nat * list nat)) (a : list nat) : R :=
  prodS o edges (fun ed => oval e ed a).

(** the body of [spe] after [rename_dups], with names for its parts *)
Definition spe_sizes (sizes0 : list nat) (pairs : list (nat * nat)) : list nat :=
  sizes0 ++ map (fun p => nth (fst p) sizes0 0) pairs.
Definition spe_conn (pairs : list (nat * nat)) (edges : list (nat * list nat)) : list nat :=
  dedup (flat_map (fun p => [fst p; snd p]) pairs ++ flat_map snd edges).
Definition spe_summed (conn ext' : list nat) : list nat :=
  filter (fun v => negb (mem (filter (mem conn) ext') v)) conn.
Definition spe_free (n0 : nat) (conn ext' : list nat) : list nat :=
  filter (fun v => negb (mem conn v) && negb (mem ext' v)) (seq 0 n0).
Definition spe_body sizes0 e edges ext' pairs (xi : list nat) : R :=
  let sizes := spe_sizes sizes0 pairs in
  let conn := spe_conn pairs edges in
  let mult_n := fold_left Nat.mul (map (fun v => nth v sizes 0) (spe_free (length sizes0) conn ext')) 1 in
  let base := put ext' xi (repeat 0 (length sizes)) in
  let v := sumS o (assts_over sizes (spe_summed conn ext') base)
                (fun a => mul o (eye_prod pairs a) (edge_prod e edges a)) in
  if Nat.eqb mult_n 1 then v else mul o v (from_nat o mult_n).

Lemma spe_unfold sizes0 e edges ext :
  spe o sizes0 e edges ext
  = if forallb (fun ed => match e (fst ed) with Some _ => true | None => false end) edges
    then Some (spe_body sizes0 e edges (fst (rename_dups ext [] (length sizes0)))
                        (snd (rename_dups ext [] (length sizes0))))
    else None.
Proof. unfold spe. destruct (rename_dups ext [] (length sizes0)) as [ext' pairs]. reflexivity. Qed.

(** the identity factors of the renamed externals: 1 if [xi] is consistent, 0 otherwise *)
Lemma rd_eye n0 : forall ext seen fresh ext' pairs xi b,
  rename_dups ext seen fresh = (ext', pairs) ->
  (forall u, In u ext -> u < n0) -> n0 <= fresh -> (forall u, In u seen -> u < fresh) ->
  length xi = length ext -> fresh + length pairs <= length b ->
  eye_prod pairs (put ext' xi b)
  = if nat_list_eqb (sel (put ext' xi b) ext) xi then one o else zero o.
Proof.
  induction ext as [|n rest IH]; intros seen fresh ext' pairs xi b E Hext Hn0 Hseen Hxi Hb.
  - cbn in E. injection E as <- <-. destruct xi; [|discriminate]. reflexivity.
  - destruct xi as [|x xs]; [discriminate|]. cbn [length] in Hxi.
    pose proof (rd_put n0 _ _ _ _ _ (x :: xs) b E Hext Hn0 Hseen Hb) as [_ Hput].
    rewrite rename_dups_cons in E. cbn [sel map]. fold (sel (put ext' (x :: xs) b) rest).
    rewrite nat_list_eqb_cons.
    assert (Hn : n < n0) by (apply Hext; now left).
    assert (H1 : forall u, In u rest -> u < n0) by (intros u Hu; apply Hext; now right).
    destruct (mem seen n) eqn:Hm.
    + apply mem_In in Hm.
      destruct (rename_dups rest (seen ++ [fresh]) (S fresh)) as [e' ps] eqn:E'. injection E as <- <-.
      cbn [length] in Hb. rewrite put_cons in *. assert (Hf : fresh < length b) by lia.
      assert (H2 : forall u, In u (seen ++ [fresh]) -> u < S fresh).
      { intros u Hu. apply in_app_iff in Hu. destruct Hu as [Hu|[<-|[]]]; [specialize (Hseen u Hu)|]; lia. }
      assert (H3 : S fresh + length ps <= length (lupd fresh x b)) by (rewrite lupd_length by exact Hf; lia).
      destruct (rd_put n0 _ _ _ _ _ xs (lupd fresh x b) E') as [_ Hs]; trivial; [lia|].
      unfold eye_prod. rewrite prodS_cons. cbn [fst snd]. fold (eye_prod ps (put e' xs (lupd fresh x b))).
      rewrite (IH _ _ _ _ xs (lupd fresh x b) E') by (trivial; lia).
      rewrite (Hs fresh) by (apply in_app_iff; right; now left). rewrite lupd_nth_same by exact Hf.
      unfold eye. destruct (Nat.eqb _ x); destruct (nat_list_eqb _ xs); cbn [andb]; ring.
    + apply not_mem_In in Hm.
      destruct (rename_dups rest (seen ++ [n]) fresh) as [e' ps] eqn:E'. injection E as <- <-.
      rewrite put_cons in *. assert (Hf : n < length b) by lia.
      assert (H2 : forall u, In u (seen ++ [n]) -> u < fresh).
      { intros u Hu. apply in_app_iff in Hu. destruct Hu as [Hu|[<-|[]]]; [now apply Hseen|lia]. }
      assert (H3 : fresh + length ps <= length (lupd n x b)) by (rewrite lupd_length by exact Hf; lia).
      destruct (rd_put n0 _ _ _ _ _ xs (lupd n x b) E') as [_ Hs]; trivial.
      rewrite (IH _ _ _ _ xs (lupd n x b) E') by (trivial; lia).
      rewrite (Hs n) by (apply in_app_iff; right; now left). rewrite lupd_nth_same by exact Hf.
      now rewrite Nat.eqb_refl.
Qed.

Lemma edge_prod_dep e edges : dep_only (flat_map snd edges) (edge_prod e edges).
Proof.
  intros a a' H. unfold edge_prod. apply prodS_ext. intros ed Hed. unfold oval.
  destruct (e (fst ed)); trivial. f_equal. apply sel_eq_In. intros u Hu. apply H.
  apply in_flat_map. now exists ed.
Qed.

Lemma fold_left_mul_right l : fold_left Nat.mul l 1 = fold_right Nat.mul 1 l.
Proof. apply fold_symmetric; intros; lia. Qed.

(** ** the core: the body of [spe] equals the definition *)
Lemma spe_body_eq sizes0 e edges ext xi :
  (forall u, In u ext -> u < length sizes0) ->
  (forall ed u, In ed edges -> In u (snd ed) -> u < length sizes0) ->
  In xi (all_assts (map (fun i => nth i sizes0 0) ext)) ->
  spe_body sizes0 e edges (fst (rename_dups ext [] (length sizes0))) (snd (rename_dups ext [] (length sizes0))) xi
  = sumS o (filter (fun a => nat_list_eqb (sel a ext) xi) (all_assts sizes0)) (edge_prod e edges).
Proof.
  intros Hext Hedges Hxi.
  destruct (rename_dups ext [] (length sizes0)) as [ext' pairs] eqn:RD. cbn [fst snd].
  set (n0 := length sizes0) in *. set (m := length pairs).
  destruct (rd_struct n0 ext [] n0 ext' pairs RD Hext (le_n _) (fun u (H : In u []) => match H with end))
    as (Hlen & Hx1 & Hx2 & Hp).
  assert (Hx1' : forall u, In u ext' -> In u ext \/ n0 <= u < n0 + m).
  { intros u Hu. destruct (Hx1 u Hu) as [[H _]|H]; [now left|now right]. }
  assert (Hx2' : forall u, In u ext -> In u ext').
  { intros u Hu. destruct (Hx2 u Hu) as [H|[]]. exact H. }
  assert (Hp' : forall p, In p pairs -> In (fst p) ext /\ In (fst p) ext' /\ In (snd p) ext' /\ n0 <= snd p < n0 + m).
  { intros p Hpin. destruct (Hp p Hpin) as (Ha & [[]|Hb] & Hc & Hd). tauto. }
  clear Hx1 Hx2 Hp.
  assert (Hxilen : length xi = length ext).
  { apply all_assts_length in Hxi. now rewrite map_length in Hxi. }
  unfold spe_body. set (sizes := spe_sizes sizes0 pairs). set (conn := spe_conn pairs edges).
  set (summed := spe_summed conn ext'). set (free := spe_free (length sizes0) conn ext'). fold n0 in free.
  assert (Hsl : length sizes = n0 + m).
  { unfold sizes, spe_sizes. now rewrite app_length, map_length. }
  set (base := put ext' xi (repeat 0 (length sizes))).
  destruct (rd_put n0 ext [] n0 ext' pairs xi (repeat 0 (length sizes)) RD Hext (le_n _)
                   (fun u (H : In u []) => match H with end)) as [Hbl _].
  { rewrite repeat_length. fold m. lia. }
  fold base in Hbl. rewrite repeat_length, Hsl in Hbl.
  (* membership in conn / summed / free *)
  assert (Hconn : forall u, In u conn <-> (exists p, In p pairs /\ (u = fst p \/ u = snd p))
                                         \/ (exists ed, In ed edges /\ In u (snd ed))).
  { intros u. unfold conn, spe_conn. rewrite dedup_In, in_app_iff, !in_flat_map. split.
    - intros [(p & Hpin & [<- | [<- | []]])|H]; [left; exists p; tauto|left; exists p; tauto|now right].
    - intros [(p & Hpin & [-> | ->])|H]; [left; exists p; cbn; tauto|left; exists p; cbn; tauto|now right]. }
  assert (Hsummed : forall u, In u summed <-> In u conn /\ ~ In u ext').
  { intros u. unfold summed, spe_summed. rewrite filter_In, negb_true_iff, not_mem_In, filter_In, mem_In. tauto. }
  assert (Hsum_edge : forall u, In u summed -> u < n0 /\ ~ In u ext /\ In u (flat_map snd edges)).
  { intros u Hu. apply Hsummed in Hu. destruct Hu as [Hc Hne]. apply Hconn in Hc.
    destruct Hc as [(p & Hpin & [-> | ->])|(ed & Hed & Hu)].
    - exfalso. apply Hne. now apply Hp'.
    - exfalso. apply Hne. now apply Hp'.
    - split; [now apply (Hedges ed)|]. split; [intros H; apply Hne; now apply Hx2'|].
      apply in_flat_map. now exists ed. }
  assert (Hfree : forall u, In u free <-> u < n0 /\ ~ In u conn /\ ~ In u ext').
  { intros u. unfold free, spe_free. rewrite filter_In, in_seq, andb_true_iff, !negb_true_iff, !not_mem_In.
    cbn [Nat.add]. split; [intros [[_ ?] [? ?]]; tauto|intros (? & ? & ?); repeat split; trivial; lia]. }
  assert (Hif : forall v k, (if Nat.eqb k 1 then v else mul o v (from_nat o k)) = mul o (from_nat o k) v).
  { intros v k. destruct (Nat.eqb k 1) eqn:E1; [|ring]. apply Nat.eqb_eq in E1. rewrite E1, (from_nat_1 o Hr). ring. }
  rewrite Hif. clear Hif.
  (* step 1: the identity factors are constant over the sum *)
  assert (Hstep1 : sumS o (assts_over sizes summed base) (fun a => mul o (eye_prod pairs a) (edge_prod e edges a))
                   = mul o (eye_prod pairs base) (sumS o (assts_over sizes summed base) (edge_prod e edges))).
  { rewrite (sumS_mul_l o Hr). apply sumS_ext. intros a Ha. f_equal.
    apply in_AO_fwd in Ha.
    2:{ intros v Hv. rewrite Hbl. apply Hsum_edge in Hv. lia. }
    destruct Ha as (_ & Ho & _). unfold eye_prod. apply prodS_ext. intros p Hpin.
    destruct (Hp' p Hpin) as (_ & Hb & Hc & _).
    rewrite !Ho; trivial; intros H; apply Hsummed in H; tauto. }
  rewrite Hstep1. clear Hstep1.
  (* step 2: the identity factors decide consistency of xi *)
  unfold base at 1.
  rewrite (rd_eye n0 ext [] n0 ext' pairs xi (repeat 0 (length sizes)) RD Hext (le_n _)
                  (fun u (H : In u []) => match H with end) Hxilen)
    by (rewrite repeat_length; fold m; lia).
  fold base. destruct (nat_list_eqb (sel base ext) xi) eqn:Hc.
  2:{ (* inconsistent: both sides are zero *)
    rewrite (sumS_all_zero o Hr (filter (fun a => nat_list_eqb (sel a ext) xi) (all_assts sizes0))).
    - ring.
    - intros a Ha. exfalso. apply filter_In in Ha. destruct Ha as [_ Ha]. apply nat_list_eqb_iff in Ha.
      assert (Hcc : sel base ext = xi).
      { unfold base. rewrite <- Ha.
        apply (rd_consistent n0 ext [] n0 ext' pairs _ a RD Hext (le_n _) (fun u (H : In u []) => match H with end)).
        - rewrite repeat_length. fold m. lia.
        - intros u []. }
      apply nat_list_eqb_iff in Hcc. congruence. }
  apply nat_list_eqb_iff in Hc.
  (* step 3: the definition as a sum over the internal nodes *)
  set (internal := filter (fun v => negb (mem ext v)) (seq 0 n0)).
  assert (Hint : forall u, In u internal <-> u < n0 /\ ~ In u ext).
  { intros u. unfold internal. rewrite filter_In, in_seq, negb_true_iff, not_mem_In. cbn [Nat.add]. split; [intros [[_ ?] ?]; tauto|intros [? ?]; split; trivial; lia]. }
  set (base0 := firstn n0 base).
  assert (Hb0l : length base0 = n0) by (unfold base0; rewrite firstn_length, Hbl; lia).
  assert (Hb0n : forall u, u < n0 -> nth u base0 0 = nth u base 0) by (intros u Hu; now apply nth_firstn_lt).
  assert (Hxi_lt : forall u, In u ext -> nth u base 0 < nth u sizes0 0).
  { apply in_all_assts in Hxi. rewrite <- Hc in Hxi. unfold sel in Hxi.
    exact (proj1 (Forall2_map_lt (fun i => nth i base 0) (fun i => nth i sizes0 0) ext) Hxi). }
  assert (Hdef : sumS o (filter (fun a => nat_list_eqb (sel a ext) xi) (all_assts sizes0)) (edge_prod e edges)
                 = sumS o (assts_over sizes0 internal base0) (edge_prod e edges)).
  { apply (sumS_NoDup_equiv o Hr).
    - apply NoDup_filter, NoDup_all_assts.
    - apply NoDup_AO; [apply NoDup_filter, seq_NoDup|]. intros v Hv. apply Hint in Hv. lia.
    - intros a. rewrite filter_In, nat_list_eqb_iff. split.
      + intros [Ha Hsel]. apply in_AO_bwd.
        * intros v Hv. apply Hint in Hv. lia.
        * rewrite Hb0l. now apply all_assts_length in Ha.
        * intros u Hu. destruct (Nat.lt_ge_cases u n0) as [Hlt|Hge].
          -- rewrite Hb0n by exact Hlt. destruct (in_dec Nat.eq_dec u ext) as [Hin|Hnin].
             ++ rewrite <- Hc in Hsel. now apply (proj1 (sel_eq_In a base ext) Hsel).
             ++ exfalso. apply Hu. now apply Hint.
          -- rewrite !nth_overflow; trivial; [lia|]. apply all_assts_length in Ha. fold n0 in Ha. lia.
        * intros u Hu. apply Hint in Hu. apply all_assts_nth; tauto.
      + intros Ha. apply in_AO_fwd in Ha; [|intros v Hv; apply Hint in Hv; lia].
        destruct Ha as (Hl & Ho & Hs). rewrite Hb0l in Hl.
        assert (Hae : forall u, In u ext -> nth u a 0 = nth u base 0).
        { intros u Hu. rewrite Ho by (intros H; apply Hint in H; tauto). apply Hb0n. now apply Hext. }
        split.
        * apply all_assts_intro; trivial. intros v Hv. destruct (in_dec Nat.eq_dec v ext) as [Hin|Hnin].
          -- rewrite Hae by exact Hin. now apply Hxi_lt.
          -- apply Hs. now apply Hint.
        * rewrite <- Hc. now apply sel_eq_In. }
  rewrite Hdef. clear Hdef.
  (* step 4: internal = free ++ summed; the free ones contribute their domain sizes *)
  assert (Hperm : sumS o (assts_over sizes0 internal base0) (edge_prod e edges)
                  = sumS o (assts_over sizes0 (free ++ summed) base0) (edge_prod e edges)).
  { apply AO_sum_perm; trivial.
    - apply NoDup_filter, seq_NoDup.
    - apply NoDup_app_intro; [apply NoDup_filter, seq_NoDup|apply NoDup_filter, dedup_NoDup|].
      intros u Hf Hs. apply Hfree in Hf. apply Hsummed in Hs. tauto.
    - intros u. rewrite in_app_iff, Hint, Hfree. split.
      + intros [Hlt Hne]. assert (Hne' : ~ In u ext').
        { intros H. destruct (Hx1' u H); [tauto|lia]. }
        destruct (in_dec Nat.eq_dec u conn) as [Hin|Hnin]; [right; apply Hsummed; tauto|left; tauto].
      + intros [(Hlt & _ & Hne)|Hs]; [split; trivial; intros H; apply Hne; now apply Hx2'|].
        apply Hsum_edge in Hs. tauto.
    - intros v Hv. apply Hint in Hv. lia. }
  rewrite Hperm. clear Hperm.
  rewrite (AO_sum_free o Hr (flat_map snd edges) (edge_prod e edges) (edge_prod_dep e edges)).
  2:{ intros v Hv Hin. apply Hfree in Hv. destruct Hv as (_ & Hnc & _). apply Hnc. apply Hconn. right.
      apply in_flat_map in Hin. exact Hin. }
  2:{ intros v Hv. rewrite Hb0l. apply in_app_iff in Hv. destruct Hv as [Hv|Hv]; [apply Hfree in Hv|apply Hsum_edge in Hv]; tauto. }
  (* step 5: back to the code's sizes and base *)
  assert (Hback : sumS o (assts_over sizes0 summed base0) (edge_prod e edges)
                  = sumS o (assts_over sizes summed base) (edge_prod e edges)).
  { apply (AO_sum_indep o Hr (flat_map snd edges) (edge_prod e edges) (edge_prod_dep e edges)).
    - intros v Hv. apply Hsum_edge in Hv. destruct Hv as (Hlt & _). rewrite Hb0l, Hbl.
      split; [lia|]. split; [lia|]. unfold sizes, spe_sizes. now rewrite app_nth1.
    - intros u Hu. right. apply Hb0n. apply in_flat_map in Hu. destruct Hu as (ed & Hed & Hu). now apply (Hedges ed). }
  rewrite Hback. clear Hback.
  assert (Hmult : fold_left Nat.mul (map (fun v => nth v sizes 0) free) 1
                  = fold_right Nat.mul 1 (map (fun v => nth v sizes0 0) free)).
  { rewrite fold_left_mul_right. f_equal. apply map_ext_in. intros v Hv. apply Hfree in Hv.
    unfold sizes, spe_sizes. now rewrite app_nth1. }
  rewrite Hmult. clear Hmult. ring.
Qed.

End Spe.
