(** C12: permutations of [0..n) given as lists ([p] with [Permutation p (seq 0 n)]; the image
    of [i] is [nth i p]), read as total bijections of [nat] (identity outside the range), their
    inverses, and what they do to [sel] and [all_assts]. *)
From Coq Require Import List Arith Bool PeanoNat Lia Permutation.
Import ListNotations.
Require Import Fggs.Model.Semiring Fggs.Model.SCC Fggs.Model.SumProduct.
Require Import Fggs.Proofs.BigSum Fggs.Proofs.SP_trees.

(** [p] lists every number below its length exactly once *)
Definition is_perm (p : list nat) : Prop := Permutation p (seq 0 (length p)).
(** the bijection denoted by [p]: [i |-> nth i p], identity from [length p] on *)
Definition pfun (p : list nat) (i : nat) : nat := nth i p i.
(** position of the first occurrence *)
Fixpoint pidx (j : nat) (p : list nat) : nat :=
  match p with [] => 0 | x :: p => if Nat.eqb x j then 0 else S (pidx j p) end.
(** the inverse permutation, as a list *)
Definition pinv (p : list nat) : list nat := map (fun j => pidx j p) (seq 0 (length p)).
(** executable test *)
Definition is_permb (p : list nat) : bool :=
  forallb (fun j => existsb (Nat.eqb j) p) (seq 0 (length p)).

Lemma is_perm_NoDup p : is_perm p -> NoDup p.
Proof. intros H. apply (Permutation_NoDup (Permutation_sym H)). apply seq_NoDup. Qed.
Lemma is_perm_In p j : is_perm p -> (In j p <-> j < length p).
Proof.
  intros H. split.
  - intros Hj. apply (Permutation_in _ H) in Hj. apply in_seq in Hj. lia.
  - intros Hj. apply (Permutation_in _ (Permutation_sym H)). apply in_seq. lia.
Qed.
Lemma is_permb_sound p : is_permb p = true -> is_perm p.
Proof.
  unfold is_permb, is_perm. rewrite forallb_forall. intros H.
  assert (Hincl : incl (seq 0 (length p)) p).
  { intros j Hj. specialize (H j Hj). apply existsb_exists in H. destruct H as (x & Hx & E).
    apply Nat.eqb_eq in E. now subst. }
  apply Permutation_sym. apply NoDup_Permutation_bis; [apply seq_NoDup|now rewrite seq_length|exact Hincl].
Qed.

Lemma pfun_lt p i : is_perm p -> i < length p -> pfun p i < length p.
Proof. intros H Hi. apply (is_perm_In p _ H). unfold pfun. now apply nth_In. Qed.
Lemma pfun_ge p i : length p <= i -> pfun p i = i.
Proof. intros Hi. unfold pfun. now apply nth_overflow. Qed.
Lemma pfun_nth p i d : i < length p -> pfun p i = nth i p d.
Proof. intros Hi. unfold pfun. now apply nth_indep. Qed.
Lemma pfun_lt_iff p i : is_perm p -> (pfun p i < length p <-> i < length p).
Proof.
  intros H. split; [|now apply pfun_lt]. intros Hi.
  destruct (Nat.lt_ge_cases i (length p)) as [|Hge]; trivial. rewrite pfun_ge in Hi by exact Hge. lia.
Qed.
Lemma pfun_inj p i j : is_perm p -> pfun p i = pfun p j -> i = j.
Proof.
  intros H E.
  destruct (Nat.lt_ge_cases i (length p)) as [Hi|Hi], (Nat.lt_ge_cases j (length p)) as [Hj|Hj].
  - unfold pfun in E. rewrite (nth_indep p i j Hi) in E.
    apply (proj1 (NoDup_nth p j) (is_perm_NoDup p H)) in E; trivial.
  - pose proof (pfun_lt p i H Hi). rewrite E, (pfun_ge p j Hj) in H0. lia.
  - pose proof (pfun_lt p j H Hj). rewrite <- E, (pfun_ge p i Hi) in H0. lia.
  - now rewrite !pfun_ge in E.
Qed.

Lemma pidx_In j p d : In j p -> pidx j p < length p /\ nth (pidx j p) p d = j.
Proof.
  induction p as [|x p IH]; [intros []|]. intros Hin. cbn [pidx length].
  destruct (Nat.eqb x j) eqn:E.
  - apply Nat.eqb_eq in E. cbn [nth]. split; [lia|exact E].
  - apply Nat.eqb_neq in E. destruct Hin as [Hx|Hin]; [congruence|].
    destruct (IH Hin) as [H1 H2]. cbn [nth]. split; [lia|exact H2].
Qed.
Lemma pidx_nth p i d : NoDup p -> i < length p -> pidx (nth i p d) p = i.
Proof.
  intros Hnd Hi. destruct (pidx_In (nth i p d) p d (nth_In p d Hi)) as [H1 H2].
  apply (proj1 (NoDup_nth p d) Hnd) in H2; trivial.
Qed.

Lemma pinv_length p : length (pinv p) = length p.
Proof. unfold pinv. now rewrite map_length, seq_length. Qed.
Lemma pfun_pinv_lt p j : j < length p -> pfun (pinv p) j = pidx j p.
Proof.
  intros Hj. rewrite (pfun_nth _ _ (pidx 0 p)) by now rewrite pinv_length.
  unfold pinv. rewrite (map_nth (fun j => pidx j p)), seq_nth by exact Hj. reflexivity.
Qed.
Lemma pfun_pinv_r p j : is_perm p -> pfun p (pfun (pinv p) j) = j.
Proof.
  intros H. destruct (Nat.lt_ge_cases j (length p)) as [Hj|Hj].
  - rewrite pfun_pinv_lt by exact Hj.
    destruct (pidx_In j p 0 (proj2 (is_perm_In p j H) Hj)) as [H1 H2].
    now rewrite (pfun_nth p _ 0 H1).
  - rewrite (pfun_ge (pinv p)) by now rewrite pinv_length. now apply pfun_ge.
Qed.
Lemma pfun_pinv_l p i : is_perm p -> pfun (pinv p) (pfun p i) = i.
Proof. intros H. apply (pfun_inj p _ _ H). now apply pfun_pinv_r. Qed.
Lemma pinv_is_perm p : is_perm p -> is_perm (pinv p).
Proof.
  intros H. unfold is_perm. rewrite pinv_length.
  apply NoDup_Permutation_bis.
  - unfold pinv. apply NoDup_map_inj; [|apply seq_NoDup].
    intros a b Ha Hb E. apply in_seq in Ha, Hb.
    destruct (pidx_In a p 0 (proj2 (is_perm_In p a H) ltac:(lia))) as [_ Ea].
    destruct (pidx_In b p 0 (proj2 (is_perm_In p b H) ltac:(lia))) as [_ Eb].
    rewrite <- Ea, <- Eb. now rewrite E.
  - now rewrite seq_length, pinv_length.
  - intros x Hx. unfold pinv in Hx. apply in_map_iff in Hx. destruct Hx as (j & <- & Hj).
    apply in_seq in Hj. apply in_seq.
    destruct (pidx_In j p 0 (proj2 (is_perm_In p j H) ltac:(lia))) as [Hlt _]. lia.
Qed.

(** * [sel] along a permutation *)
Lemma sel_length a l : length (sel a l) = length l.
Proof. unfold sel. apply map_length. Qed.
Lemma nth_sel a l i : i < length l -> nth i (sel a l) 0 = nth (nth i l 0) a 0.
Proof.
  intros Hi. unfold sel.
  rewrite nth_indep with (d' := nth 0 a 0) by now rewrite map_length.
  exact (map_nth (fun i => nth i a 0) l 0 i).
Qed.
(** [sel a p] reads [a] through [p]: position [i] of the result is position [pfun p i] of [a] *)
Lemma nth_sel_perm a p i : length a = length p -> nth i (sel a p) 0 = nth (pfun p i) a 0.
Proof.
  intros Hl. destruct (Nat.lt_ge_cases i (length p)) as [Hi|Hi].
  - rewrite nth_sel by exact Hi. now rewrite (pfun_nth p i 0 Hi).
  - rewrite pfun_ge by exact Hi. rewrite !nth_overflow; trivial; [lia|now rewrite sel_length].
Qed.
Lemma sel_sel_perm a p att : length a = length p -> sel (sel a p) att = sel a (map (pfun p) att).
Proof.
  intros Hl. unfold sel at 1 3. rewrite map_map. apply map_ext. intros i. now apply nth_sel_perm.
Qed.
Lemma sel_sel_cancel a p q :
  length a = length p -> length q = length p -> (forall i, pfun p (pfun q i) = i) -> sel (sel a p) q = a.
Proof.
  intros Hl Hq Hc. apply nth_ext with (d := 0) (d' := 0); [rewrite sel_length; lia|].
  intros i _. rewrite nth_sel_perm by (rewrite sel_length; lia).
  rewrite nth_sel_perm by exact Hl. now rewrite Hc.
Qed.
Lemma sel_pinv_l a p : is_perm p -> length a = length p -> sel (sel a p) (pinv p) = a.
Proof. intros H Hl. apply sel_sel_cancel; trivial; [apply pinv_length|intros i; now apply pfun_pinv_r]. Qed.
Lemma sel_pinv_r a p : is_perm p -> length a = length p -> sel (sel a (pinv p)) p = a.
Proof.
  intros H Hl. apply sel_sel_cancel; trivial; try (now rewrite pinv_length).
  intros i. now apply pfun_pinv_l.
Qed.
Lemma sel_seq a : sel a (seq 0 (length a)) = a.
Proof. unfold sel. symmetry. apply list_as_map_nth. Qed.
Lemma sel_perm_Permutation a p : is_perm p -> length a = length p -> Permutation (sel a p) a.
Proof.
  intros H Hl. rewrite <- (sel_seq a) at 2. rewrite Hl. unfold sel. now apply Permutation_map.
Qed.
Lemma map_sel (f : nat -> nat) a l :
  (forall i, In i l -> i < length a) -> map f (sel a l) = map (fun i => nth i (map f a) 0) l.
Proof.
  intros H. unfold sel. rewrite map_map. apply map_ext_in. intros i Hi.
  rewrite (nth_indep (map f a) 0 (f 0)) by (rewrite map_length; now apply H).
  symmetry. apply map_nth.
Qed.

(** * [all_assts] along a permutation of the positions *)
Lemma all_assts_sel_perm sizes a p :
  is_perm p -> length p = length sizes -> In a (all_assts sizes) -> In (sel a p) (all_assts (sel sizes p)).
Proof.
  intros H Hl Ha. pose proof (all_assts_length _ _ Ha) as Hla.
  apply all_assts_intro; [now rewrite !sel_length|].
  intros v Hv. rewrite sel_length in Hv. rewrite !nth_sel_perm by lia.
  apply all_assts_nth; trivial. rewrite <- Hl. now apply pfun_lt.
Qed.

Section PermSum.
Context {R : Type} (o : sr_ops R) (Hring : sr_ring o).

(** re-indexing the sum over all assignments along a permutation of the positions *)
Lemma sumS_all_assts_perm sizes p (F : list nat -> R) :
  is_perm p -> length p = length sizes ->
  sumS o (all_assts (sel sizes p)) F = sumS o (all_assts sizes) (fun a => F (sel a p)).
Proof.
  intros H Hl. symmetry.
  apply (sumS_bij o Hring (fun a => sel a p)); try apply NoDup_all_assts.
  - intros a Ha. now apply all_assts_sel_perm.
  - intros a b Ha Hb E. apply all_assts_length in Ha, Hb.
    rewrite <- (sel_pinv_l a p H), <- (sel_pinv_l b p H) by lia. now rewrite E.
  - intros y Hy. exists (sel y (pinv p)).
    pose proof (all_assts_length _ _ Hy) as Hly. rewrite sel_length in Hly. split.
    + rewrite <- (sel_pinv_l sizes p H) by lia.
      apply all_assts_sel_perm; trivial; [now apply pinv_is_perm|now rewrite pinv_length, sel_length].
    + now apply sel_pinv_r.
  - reflexivity.
Qed.

Theorem assignments_permuted sizes p (F : list nat -> R) :
  is_perm p -> length p = length sizes ->
  Permutation (map (fun a => sel a p) (all_assts sizes)) (all_assts (sel sizes p))
  /\ sumS o (all_assts (sel sizes p)) F = sumS o (all_assts sizes) (fun a => F (sel a p))
  /\ (forall a att, length a = length p -> sel (sel a p) att = sel a (map (pfun p) att)).
Proof.
  intros H Hl. split; [|split; [now apply sumS_all_assts_perm|intros a att Ha; now apply sel_sel_perm]].
  apply NoDup_Permutation.
  - apply NoDup_map_inj; [|apply NoDup_all_assts].
    intros a b Ha Hb E. apply all_assts_length in Ha, Hb.
    rewrite <- (sel_pinv_l a p H), <- (sel_pinv_l b p H) by lia. now rewrite E.
  - apply NoDup_all_assts.
  - intros y. rewrite in_map_iff. split.
    + intros (a & <- & Ha). now apply all_assts_sel_perm.
    + intros Hy. exists (sel y (pinv p)).
      pose proof (all_assts_length _ _ Hy) as Hly. rewrite sel_length in Hly. split.
      * now apply sel_pinv_r.
      * rewrite <- (sel_pinv_l sizes p H) by lia.
        apply all_assts_sel_perm; trivial; [now apply pinv_is_perm|now rewrite pinv_length, sel_length].
Qed.
End PermSum.

Example ex_perm : is_perm [2; 0; 1].
Proof. apply is_permb_sound. reflexivity. Qed.
Example ex_perm_inv : pinv [2; 0; 1] = [1; 2; 0] /\ map (pfun [2; 0; 1]) [0; 1; 2; 3] = [2; 0; 1; 3].
Proof. split; reflexivity. Qed.
