(** C01: a concrete grammar showing that the hypotheses of the C01 theorems are satisfiable by a
    non-trivial value, and a worked evaluation in the semiring of natural numbers. *)
From Coq Require Import List Arith Bool PeanoNat Lia Ring Ring_theory ArithRing.
Import ListNotations.
Require Import Fggs.Model.Semiring Fggs.Model.SCC Fggs.Model.SumProduct.
Require Import Fggs.Proofs.SCC_ntgraph Fggs.Proofs.BigSum Fggs.Proofs.SP_trees Fggs.Proofs.SP_nonrec
               Fggs.Proofs.SP_code Fggs.Proofs.SP_rename Fggs.Proofs.SP_spe Fggs.Proofs.SP_driver
               Fggs.Proofs.SP_main Fggs.Proofs.SP_corollaries.

(** node labels: 0 (domain size 2), 1 (domain size 3).
    edge labels: 0 = terminal f : (0,1);  1 = nonterminal X : (0);  2 = start S : ();
                 3 = nonterminal Y : (1) without rules (and unreachable).
    X(n0) -> f(n0, n1), plus an isolated internal node n2 of label 1;   S -> X(n0). *)
Definition rX : rule := {| r_lhs := 1; r_nodes := [0; 1; 1]; r_edges := [(0, [0; 1])]; r_ext := [0] |}.
Definition rS : rule := {| r_lhs := 2; r_nodes := [0]; r_edges := [(1, [0])]; r_ext := [] |}.
Definition G_ex : grammar :=
  {| g_doms := [2; 3];
     g_labels := [(true, [0; 1]); (false, [0]); (false, []); (false, [1])];
     g_rules := [rX; rS];
     g_start := 2 |}.
Definition ord_ex : list nat := [1; 3; 2].
Definition rank_ex (X : nat) : nat := match X with 2 => 1 | _ => 0 end.

Example G_ex_wf : wf_grammar G_ex = true.
Proof. reflexivity. Qed.
Example rX_wf : wf_rule G_ex rX = true.
Proof. reflexivity. Qed.

Example G_ex_ranked : ranked G_ex rank_ex.
Proof.
  intros r [<-|[<-|[]]] _ ed [<-|[]] Ht; cbn in Ht; try discriminate. cbn. lia.
Qed.

Example G_ex_dep_ordered : dep_ordered G_ex [] ord_ex.
Proof.
  cbn [ord_ex dep_ordered]. repeat split.
  - intros r ed [<-|[]] [<-|[]] Ht. cbn in Ht. discriminate.
  - intros r ed [].
  - intros r ed [<-|[]] [<-|[]] _. cbn. now left.
Qed.
Example ord_ex_NoDup : NoDup ord_ex.
Proof. repeat constructor; cbn; intuition discriminate. Qed.
Example ord_ex_all : forall X, is_term G_ex X = false -> In X ord_ex.
Proof.
  intros X H. unfold ord_ex. cbn [In]. destruct X as [|[|[|[|X]]]].
  - discriminate H.
  - now left.
  - right. right. now left.
  - right. now left.
  - exfalso. unfold is_term in H. cbn [G_ex g_labels nth] in H. destruct X; discriminate H.
Qed.
Example order_ex_nonrecursive : nonrecursive_order G_ex (map (fun x => [x]) ord_ex) = true.
Proof. reflexivity. Qed.

(** a well-formed derivation tree of S: S -> X(n0 := 1); X -> f(1, 2) with the isolated node at 0 *)
Definition t_ex : dtree := DT 1 [1] [Some (DT 0 [1; 2; 0] [None])].
Example t_ex_wf : wf_dtree G_ex 2 [] t_ex.
Proof.
  cbn -[all_assts]. repeat split; try lia; try reflexivity;
    apply in_all_assts; cbn; repeat constructor.
Qed.
Example t_ex_depth : depth t_ex = 2.
Proof. reflexivity. Qed.

(** the Boolean instance *)
Definition w_bool : tmt (R:=bool) := [(0, tabulate [2; 3] (fun xi => Nat.eqb (nth 0 xi 0) (nth 1 xi 0)))].
Example w_bool_keys : forall l, tget w_bool l <> None -> is_term G_ex l = true.
Proof. intros [|l] H; [reflexivity|]. cbn in H. congruence. Qed.
Example bool_value : env_of bool_ops (sum_products_nonrec bool_ops G_ex w_bool (map (fun x => [x]) ord_ex)) 2 [] = true.
Proof. vm_compute. reflexivity. Qed.

(** the natural numbers as a commutative semiring (star and le are not used by C01) *)
Definition nat_ops_example : sr_ops nat :=
  {| zero := 0; one := 1; add := Nat.add; mul := Nat.mul; star := fun _ => 0; le := Nat.le |}.
Lemma nat_ring_example : sr_ring nat_ops_example.
Proof. exact natSRth. Qed.
(** f(x0, x1) = x0 + x1 :  X(x0) = 3 * sum_{x1<3} (x0 + x1) = 9 x0 + 9,   S = X(0) + X(1) = 27 *)
Definition w_nat : tmt (R:=nat) := [(0, tabulate [2; 3] (fun xi => nth 0 xi 0 + nth 1 xi 0))].
Example nat_value_S : env_of nat_ops_example (sum_products_nonrec nat_ops_example G_ex w_nat (map (fun x => [x]) ord_ex)) 2 [] = 27.
Proof. vm_compute. reflexivity. Qed.
Example nat_value_X1 : env_of nat_ops_example (sum_products_nonrec nat_ops_example G_ex w_nat (map (fun x => [x]) ord_ex)) 1 [1] = 18.
Proof. vm_compute. reflexivity. Qed.
Example nat_value_Y : env_of nat_ops_example (sum_products_nonrec nat_ops_example G_ex w_nat (map (fun x => [x]) ord_ex)) 3 [2] = 0.
Proof. vm_compute. reflexivity. Qed.
(** the same numbers from the definition: the sum over all derivation trees *)
Example nat_tree_sum_S : tree_sum nat_ops_example G_ex (env_of nat_ops_example w_nat) 3 2 [] = 27.
Proof. vm_compute. reflexivity. Qed.
Example nat_trees_S : length (enum_trees G_ex 3 2 []) = 18.
Proof. vm_compute. reflexivity. Qed.

(** duplicated external nodes (as produced by the Jacobian): ext = [0; 0], diagonal restriction *)
Definition rDup : rule := {| r_lhs := 1; r_nodes := [0; 1]; r_edges := [(0, [0; 1])]; r_ext := [0; 0] |}.
Example spe_dup_diag :
  oapp nat_ops_example (spe nat_ops_example (node_sizes G_ex rDup) (mt_get (mt_of nat_ops_example w_nat)) (r_edges rDup) (r_ext rDup)) [1; 1] = 6
  /\ oapp nat_ops_example (spe nat_ops_example (node_sizes G_ex rDup) (mt_get (mt_of nat_ops_example w_nat)) (r_edges rDup) (r_ext rDup)) [1; 0] = 0.
Proof. split; vm_compute; reflexivity. Qed.
