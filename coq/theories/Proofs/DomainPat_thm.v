(** C20 -- FiniteFactor.apply on weights given as a PatternedTensor representation
    (Model.DomainPat): the dense denotation is well-formed, holds at every row-major position
    the element the representation denotes there (stored element or default), and a case that
    [facp_check] accepts has every complete apply answer equal to that element. *)
From Coq Require Import List Arith Bool PeanoNat ZArith QArith Lia PArith.
Import ListNotations.
Require Import Fggs.Model.Axis Fggs.Model.Domain Fggs.Model.DomainPat.
Require Import Fggs.Proofs.Domain_dom Fggs.Proofs.Domain_fac.
Local Open Scope nat_scope.

(** * the enumeration of index tuples *)
Lemma all_idx_length sh : length (all_idx sh) = Domain.numel sh.
Proof.
  induction sh as [|n sh IH]; cbn [all_idx Domain.numel]; [reflexivity|].
  generalize 0 as a. induction n as [|n IHn]; intros a; cbn [seq flat_map]; [reflexivity|].
  rewrite app_length, map_length, IH, IHn. lia.
Qed.

Lemma nth_error_flat_map_seq {A} (f : nat -> list A) m : (forall j, length (f j) = m) ->
  forall n a i r, i < n -> r < m -> nth_error (flat_map f (seq a n)) (i * m + r) = nth_error (f (a + i)) r.
Proof.
  intros Hm. induction n as [|n IH]; intros a i r Hi Hr; [lia|].
  cbn [seq flat_map]. destruct i as [|i].
  - cbn [Nat.mul Nat.add]. rewrite nth_error_app1 by (rewrite Hm; exact Hr). rewrite Nat.add_0_r. reflexivity.
  - rewrite nth_error_app2 by (rewrite Hm; cbn; lia).
    rewrite Hm. replace (S i * m + r - m) with (i * m + r) by (cbn; lia).
    rewrite IH by lia. f_equal. f_equal. lia.
Qed.

Lemma rm_offset_acc : forall sh is acc, Forall2 lt is sh ->
  rm_offset sh is acc = acc * Domain.numel sh + rm_offset sh is 0.
Proof.
  induction sh as [|s sh IH]; intros is acc HF; inversion HF; subst; cbn [rm_offset Domain.numel].
  - lia.
  - rewrite (IH _ (acc * s + x)) by assumption. rewrite (IH _ (0 * s + x)) by assumption. nia.
Qed.

(** the tuple at row-major position [rm_offset sh idx 0] of the enumeration is [idx] *)
Lemma all_idx_nth : forall sh idx, Forall2 lt idx sh ->
  nth_error (all_idx sh) (rm_offset sh idx 0) = Some idx.
Proof.
  induction sh as [|s sh IH]; intros idx HF; inversion HF; subst; cbn [all_idx rm_offset].
  - reflexivity.
  - rewrite rm_offset_acc by assumption. cbn [Nat.mul Nat.add].
    pose proof (rm_offset_lt _ _ 0 H3) as Hlt. cbn in Hlt. rewrite Nat.add_0_r in Hlt.
    rewrite (nth_error_flat_map_seq (fun i => map (cons i) (all_idx sh)) (Domain.numel sh)).
    + cbn [Nat.add]. rewrite nth_error_map, (IH _ H3). reflexivity.
    + intros j. rewrite map_length. apply all_idx_length.
    + assumption.
    + assumption.
Qed.

(** * mapO *)
Lemma mapO_length {A B} (f : A -> option B) : forall l l', mapO f l = Some l' -> length l' = length l.
Proof.
  induction l as [|a l IH]; intros l'; cbn [mapO].
  - intros H; injection H as <-. reflexivity.
  - destruct (f a); [|discriminate]. destruct (mapO f l) as [bs|]; [|discriminate].
    intros H; injection H as <-. cbn. f_equal. apply IH. reflexivity.
Qed.

Lemma mapO_nth {A B} (f : A -> option B) : forall l l' k a, mapO f l = Some l' -> nth_error l k = Some a ->
  nth_error l' k = f a /\ f a <> None.
Proof.
  induction l as [|x l IH]; intros l' k a; cbn [mapO].
  - destruct k; discriminate.
  - destruct (f x) as [b|] eqn:Ex; [|discriminate]. destruct (mapO f l) as [bs|]; [|discriminate].
    intros H; injection H as <-. destruct k as [|k]; cbn [nth_error].
    + intros H; injection H as <-. rewrite Ex. split; [reflexivity|discriminate].
    + apply IH. reflexivity.
Qed.

(** * the dense denotation *)
Theorem pat_dense_wf p t : pat_dense p = Some t -> tensor_wf t = true /\ fst t = pat_shape p.
Proof.
  unfold pat_dense. destruct (mapO (pat_at p) (all_idx (pat_shape p))) as [data|] eqn:E; [|discriminate].
  intros H; injection H as <-. unfold tensor_wf. cbn [fst snd]. split; [|reflexivity].
  apply Nat.eqb_eq. rewrite (mapO_length _ _ _ E). apply all_idx_length.
Qed.

(** at every in-range position the dense denotation holds what the representation denotes there *)
Theorem pat_dense_at p sh data idx : pat_dense p = Some (sh, data) -> Forall2 lt idx sh ->
  exists w, pat_at p idx = Some w /\ nth_error data (rm_offset sh idx 0) = Some w.
Proof.
  unfold pat_dense. destruct (mapO (pat_at p) (all_idx (pat_shape p))) as [data'|] eqn:E; [|discriminate].
  intros H HF; injection H as <- <-.
  destruct (mapO_nth _ _ _ _ _ E (all_idx_nth _ _ HF)) as [Hn Hs].
  destruct (pat_at p idx) as [w|]; [|congruence]. exists w. split; [reflexivity|exact Hn].
Qed.

(** what the representation denotes: the default wherever a vaxis says the position is not
    stored, the stored element wherever all of them decode it *)
Theorem pat_at_unstored ps data vs d idx :
  Axis.index_list vs [] idx = IEmpty -> pat_at (ps, data, vs, d) idx = Some d.
Proof. intros H. unfold pat_at. rewrite H. reflexivity. Qed.

Theorem pat_at_stored ps data vs d idx pi off :
  Axis.index_list vs [] idx = IOk pi -> phys_offset ps pi 0 = Some off ->
  pat_at (ps, data, vs, d) idx = nth_error data off.
Proof. intros H1 H2. unfold pat_at. rewrite H1, H2. reflexivity. Qed.

(** * the check *)
(** what [fac_check = 0] says about apply on an accepted finite factor *)
Lemma fac_check_zero_apply doms w f iapps ieqs t :
  fac_check (CFiniteF doms w, Ok f, iapps, ieqs) = 0 -> to_tensor w = Ok t ->
  fst t = sizes_of doms /\
  forall vs r, In (vs, r) iapps -> forallb good_dom doms = true -> apply_oracle doms t vs r = true.
Proof.
  cbn [fac_check]. intros H Ht. rewrite Ht in H.
  destruct (negb (tensor_wf t)); [discriminate|].
  destruct (negb (ctor_oracle doms w true)) eqn:Ec; [discriminate|].
  apply negb_false_iff in Ec. unfold ctor_oracle in Ec. rewrite Ht in Ec.
  destruct (forallb size_finite doms); cbn [andb] in Ec;
    [|destruct t; discriminate].
  destruct t as [sh d]. cbn [eqb] in Ec.
  assert (Hsh : sh = sizes_of doms).
  { destruct (list_eqb Nat.eqb sh (sizes_of doms)) eqn:El; [|discriminate]. apply nat_list_eqb_eq. exact El. }
  split; [exact Hsh|].
  destruct (negb (forallb (fun a : list value * result tensor =>
                             negb (forallb good_dom doms) || apply_oracle doms (sh, d) (fst a) (snd a)) iapps)) eqn:Ea;
    [discriminate|].
  apply negb_false_iff in Ea. rewrite forallb_forall in Ea.
  intros vs r Hin Hg. specialize (Ea _ Hin). cbn [fst snd] in Ea. rewrite Hg in Ea. exact Ea.
Qed.

(** A case the check accepts: whatever complete tuple of domain values apply was asked on, its
    answer is the 0-dimensional tensor holding the element that the REPRESENTATION of the weights
    denotes at the numberized position -- the stored element, or the default where the position
    is not stored. *)
Theorem facp_check_apply doms p p' f iapps ieqs :
  facp_check (doms, p, p', Ok f, iapps, ieqs) = 0 ->
  forallb good_dom doms = true ->
  forall vs r is, In (vs, r) iapps -> spec_indices doms vs = Some is ->
  exists w d', pat_at p is = Some w /\ r = Ok ([], d') /\ Forall2 Qeq d' [w].
Proof.
  unfold facp_check. destruct (pat_dense p) as [[sh data]|] eqn:Ep; [|discriminate].
  destruct (fac_check (CFiniteF doms (WPatterned sh data), Ok f, iapps, ieqs)) as [|c] eqn:Ec;
    [|cbn; discriminate].
  intros _ Hg vs r is Hin Hs.
  destruct (fac_check_zero_apply doms (WPatterned sh data) f iapps ieqs (sh, data) Ec eq_refl) as [Hsh Ha].
  cbn [fst] in Hsh.
  specialize (Ha vs r Hin Hg).
  destruct (apply_oracle_sound _ _ _ _ Ha is Hs) as [w [d' [Hn [Hr Hq]]]]. cbn [fst snd] in Hn.
  destruct (spec_indices_numberize doms vs is Hg Hs) as [_ HF]. rewrite <- Hsh in HF.
  destruct (pat_dense_at p sh data is Ep HF) as [w' [Hw Hn']].
  assert (w' = w) by congruence. subst w'.
  exists w, d'. auto.
Qed.

(** unchanged representation is part of verdict 0 *)
Theorem facp_check_unchanged doms p p' ictor iapps ieqs :
  facp_check (doms, p, p', ictor, iapps, ieqs) = 0 -> pat_eqb p p' = true.
Proof.
  unfold facp_check. destruct (pat_dense p) as [[sh data]|]; [|discriminate].
  destruct (fac_check _) as [|c]; [|cbn; discriminate]. cbn [Nat.eqb negb].
  destruct (pat_eqb p p'); [reflexivity|discriminate].
Qed.

(** examples: the diagonal with default 7 and a block shifted by a SumAxis with default -1 *)
Example pat_dense_diag :
  pat_dense ([(1%positive, 3)], [1; 2; 3]%Q, [Phys 1 3; Phys 1 3], 7%Q)
  = Some ([3; 3], [1; 7; 7; 7; 2; 7; 7; 7; 3]%Q).
Proof. reflexivity. Qed.
Example pat_dense_shift :
  pat_dense ([(1%positive, 2)], [1; 2]%Q, [Phys 1 2; Sum 1 (Phys 1 2) 1], (-1)%Q)
  = Some ([2; 4], [-1; 1; -1; -1; -1; -1; 2; -1]%Q).
Proof. reflexivity. Qed.
