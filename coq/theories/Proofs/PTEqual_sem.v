(** C13, the main argument: [compare_core] (the body of [equal] / [allclose] after the size test
    and the freshening) answers True exactly when the comparison holds in every cell of the two
    denotations -- for well-formed operands of the same shape whose two projected views enumerate
    exactly the coincidences of the two patterns, each once ([overlap_ok]).

    - supports: the cells backed by a tensor are the injective image of its physical index space
      (C06_at_most_one_backing), so there are [pnumel (paxes t)] of them;
    - the overlap list is in bijection with the cells backed on both sides;
    - inclusion-exclusion: [n + |overlap| <= |t| + |u|] iff no cell is unbacked on both sides;
    - the four kinds of cells (both / self only / other only / neither) are decided by the overlap
      comparison, [selfok], [otherok] and the comparison of the defaults respectively. *)
From Coq Require Import List Arith Lia PeanoNat Bool PArith.
Import ListNotations.
Require Import Fggs.Model.Axis Fggs.Model.AxisCheck Fggs.Model.PTensor Fggs.Model.PTensorCheck Fggs.Model.PTEqual.
Require Import Fggs.Proofs.Axis_sem Fggs.Proofs.PTensor_sem Fggs.Proofs.PTensor_dense Fggs.Proofs.Axis_repr.
Require Import Fggs.Proofs.Axis_complete Fggs.Proofs.PTensor_gen Fggs.Proofs.PTEqual_count.

Lemma forallb_ext' {A} (f g : A -> bool) l : (forall x, f x = g x) -> forallb f l = forallb g l.
Proof. intros H. induction l as [|x l IH]; simpl; [reflexivity|rewrite H, IH; reflexivity]. Qed.

Lemma combine_fst_snd' {A B} (l : list (A * B)) : combine (map fst l) (map snd l) = l.
Proof. induction l as [|[a b] l IH]; simpl; [reflexivity|rewrite IH; reflexivity]. Qed.

Section Support.
Variable V : Type.
Notation ptensor := (ptensor V).

(** the cell a physical element backs *)
Definition cell_of (t : ptensor) (pi : list pn) : list nat := evals (env_of pi) (vaxes t).

Definition backedb (t : ptensor) (idx : list nat) : bool :=
  existsb (fun pi => nat_list_eqb (cell_of t pi) idx) (all_envs (paxes t)).

Lemma backedb_true t idx : backedb t idx = true <-> exists pi, In pi (all_envs (paxes t)) /\ cell_of t pi = idx.
Proof.
  unfold backedb. rewrite existsb_exists. split; intros (pi & H & E); exists pi; (split; [exact H|]);
    apply nat_list_eqb_eq; exact E.
Qed.

Lemma cell_in_bounds t pi : wf V t -> In pi (all_envs (paxes t)) -> in_bounds (shape V t) (cell_of t pi).
Proof. intros W H. apply evals_in_bounds. apply wf_inrange; assumption. Qed.

Lemma cell_denote t pi : wf V t -> In pi (all_envs (paxes t)) -> denote V t (cell_of t pi) = physical t (map snd pi).
Proof.
  intros W H. unfold cell_of. rewrite denote_backed; [|apply wf_covers; exact W|apply wf_inrange; assumption].
  unfold pget. rewrite pcoords_env_of; [reflexivity|apply (wf_nodup V t W)|exact H].
Qed.

(** C06_at_most_one_backing, on enumerated elements *)
Lemma cell_inj t pi1 pi2 : wf V t -> In pi1 (all_envs (paxes t)) -> In pi2 (all_envs (paxes t)) ->
  cell_of t pi1 = cell_of t pi2 -> pi1 = pi2.
Proof.
  intros W H1 H2 E. apply (all_envs_coords_inj (paxes t)); trivial.
  rewrite <- (pcoords_env_of (paxes t) pi1), <- (pcoords_env_of (paxes t) pi2); trivial; try apply (wf_nodup V t W).
  apply pcoords_ext. intros k Hk.
  apply (pattern_injective (vaxes t) (env_of pi1) (env_of pi2)); try (apply wf_inrange; assumption).
  - exact E.
  - apply (wf_covers V t W). exact Hk.
Qed.

(** every in-range environment is (on the free axes) one of the enumerated ones *)
Lemma restrict_env t rho : wf V t -> Forall (inrange rho) (vaxes t) ->
  exists pi, In pi (all_envs (paxes t)) /\ cell_of t pi = evals rho (vaxes t).
Proof.
  intros W R. exists (map (fun kn : pn => (fst kn, rho (fst kn))) (paxes t)). split.
  - apply all_envs_complete. intros k n Hk. apply (wf_fv V t W) in Hk.
    apply in_flat_map in Hk. destruct Hk as (e & He & Hk). rewrite Forall_forall in R.
    exact (proj2 (inrange_fvn rho e) (R e He) k n Hk).
  - unfold cell_of. apply evals_ext. intros k Hk. unfold env_of. rewrite assoc_restrict; [reflexivity|].
    apply in_flat_map in Hk. destruct Hk as (e & He & Hk). rewrite fv_fvn in Hk. apply in_map_iff in Hk.
    destruct Hk as ([k' n] & <- & Hk). apply in_map_iff. exists (k', n). split; [reflexivity|].
    apply (wf_fv V t W). apply in_flat_map. eauto.
Qed.

Lemma in_bounds_length shp idx : in_bounds shp idx -> length idx = length shp.
Proof. intros H. apply Forall2_len in H. exact H. Qed.

Lemma unbacked_denote t idx : wf V t -> in_bounds (shape V t) idx -> backedb t idx = false ->
  denote V t idx = default t.
Proof.
  intros W B U. apply denote_unbacked.
  - apply in_bounds_length in B. unfold shape in B. rewrite map_length in B. exact B.
  - intros rho R E. destruct (restrict_env t rho W R) as (pi & Hpi & Epi).
    assert (backedb t idx = true); [|congruence]. apply backedb_true. exists pi. split; [exact Hpi|congruence].
Qed.

(** the support has as many cells as the physical tensor has elements *)
Lemma count_backed t : wf V t ->
  length (filter (backedb t) (all_idx (shape V t))) = pnumel (paxes t).
Proof.
  intros W. rewrite <- all_envs_length. symmetry. apply (count_bij (cell_of t)).
  - apply all_envs_NoDup.
  - apply all_idx_NoDup.
  - intros x y Hx Hy. apply cell_inj; assumption.
  - intros b. rewrite backedb_true. split.
    + intros [_ H]. exact H.
    + intros (pi & Hpi & <-). split; [apply all_idx_In; apply cell_in_bounds; assumption|].
      exists pi. auto.
Qed.

End Support.

Section Compare.
Variable V : Type.
Variable cmp : V -> V -> bool.
Variables t u : ptensor V.
Hypothesis Wt : wf V t.
Hypothesis Wu : wf V u.
Hypothesis Hshape : shape V t = shape V u.

Notation cell_of := (cell_of V).
Notation backedb := (backedb V).
Let cells := all_idx (shape V t).

(** the two views enumerate exactly the coincidences of the two patterns, each once *)
Definition overlap_ok (cs : list (list nat * list nat)) : Prop :=
  NoDup (map fst cs) /\
  (forall cc, In cc cs -> exists pi pj, In pi (all_envs (paxes t)) /\ In pj (all_envs (paxes u)) /\
       fst cc = map snd pi /\ snd cc = map snd pj /\ cell_of t pi = cell_of u pj) /\
  (forall pi pj, In pi (all_envs (paxes t)) -> In pj (all_envs (paxes u)) -> cell_of t pi = cell_of u pj ->
       In (map snd pi, map snd pj) cs).

(** what [compare_core] computes once the overlap list is known *)
Definition verdict (k : nat) (cs : list (list nat * list nat)) : bool :=
  if negb (forallb (fun cc => cmp (physical t (fst cc)) (physical u (snd cc))) cs) then false
  else
    ((fold_right Nat.mul 1 (shape V t) + k <=? pnumel (paxes t) + pnumel (paxes u)) || cmp (default t) (default u))
    && forallb (fun c => cmp (physical t c) (default u) || marked c (map fst cs)) (pcoords_all (paxes t))
    && forallb (fun c => cmp (default t) (physical u c) || marked c (map snd cs)) (pcoords_all (paxes u)).

Definition overlap_cs (next : positive) : res (list (list nat * list nat)) :=
  match overlap_model V next t u with
  | Ok (Some o) => Ok (ov_pairs o)
  | Ok None => Ok []
  | Fail e => Fail e
  end.

Lemma compare_core_verdict next :
  compare_core V cmp next t u = (cs <- overlap_cs next ;; Ok (verdict (length cs) cs)).
Proof.
  unfold compare_core, overlap_cs. destruct (overlap_model V next t u) as [[o|]|e]; cbn [bind]; [| |reflexivity].
  - assert (L : length (ov_pairs o) = pnumel (ov_sub o)).
    { unfold ov_pairs. rewrite map_length, all_envs_length. reflexivity. }
    unfold verdict. rewrite L. destruct (forallb _ (ov_pairs o)); reflexivity.
  - unfold verdict. cbn [forallb negb length map]. rewrite Nat.add_0_r. f_equal. f_equal; [f_equal|].
    + apply forallb_ext'. intros c. unfold marked, memb. simpl. rewrite orb_false_r. reflexivity.
    + apply forallb_ext'. intros c. unfold marked, memb. simpl. rewrite orb_false_r. reflexivity.
Qed.

Lemma marked_In c l : marked c l = true <-> In c l.
Proof. unfold marked. apply memb_In. exact nat_list_eqb_eq. Qed.

Section Sound.
(** the half "True -> the comparison holds everywhere" does not need the view to be duplicate free:
    a duplicated overlap element only makes [n] larger *)
Variable cs : list (list nat * list nat).
Hypothesis ok_sound : forall cc, In cc cs -> exists pi pj, In pi (all_envs (paxes t)) /\ In pj (all_envs (paxes u)) /\
       fst cc = map snd pi /\ snd cc = map snd pj /\ cell_of t pi = cell_of u pj.
Hypothesis ok_complete : forall pi pj, In pi (all_envs (paxes t)) -> In pj (all_envs (paxes u)) ->
       cell_of t pi = cell_of u pj -> In (map snd pi, map snd pj) cs.

Definition pair_cell (cc : list nat * list nat) : list nat :=
  cell_of t (combine (map fst (paxes t)) (fst cc)).

Lemma combine_coords ps pi : In pi (all_envs ps) -> combine (map fst ps) (map snd pi) = pi.
Proof. intros H. destruct (in_all_envs _ _ H) as [K _]. rewrite <- K. apply combine_fst_snd'. Qed.

Lemma pair_cell_spec pi pj : In pi (all_envs (paxes t)) -> pair_cell (map snd pi, pj) = cell_of t pi.
Proof. intros H. unfold pair_cell. cbn [fst]. rewrite combine_coords; [reflexivity|exact H]. Qed.

Lemma in_cells idx : In idx cells <-> in_bounds (shape V t) idx.
Proof. apply all_idx_In. Qed.

Lemma count_overlap_le :
  length (filter (fun idx => backedb t idx && backedb u idx) cells) <= length cs.
Proof.
  rewrite <- (map_length pair_cell cs). apply NoDup_incl_length; [apply NoDup_filter; apply all_idx_NoDup|].
  intros b Hb. apply filter_In in Hb. destruct Hb as [_ Hb]. apply andb_true_iff in Hb. rewrite !backedb_true in Hb.
  destruct Hb as [(pi & Hpi & Ei) (pj & Hpj & Ej)]. apply in_map_iff. exists (map snd pi, map snd pj).
  split; [rewrite pair_cell_spec; assumption|apply ok_complete; trivial; congruence].
Qed.

Lemma count_argument_weak :
  (fold_right Nat.mul 1 (shape V t) + length cs <=? pnumel (paxes t) + pnumel (paxes u)) = true ->
  forallb (fun idx => backedb t idx || backedb u idx) cells = true.
Proof.
  rewrite Nat.leb_le, <- filter_len_full.
  rewrite <- (count_backed V t Wt), <- (count_backed V u Wu), <- Hshape.
  fold cells. rewrite (filter_incl_excl (backedb t) (backedb u) cells).
  pose proof count_overlap_le as L. unfold cells at 1. rewrite <- all_idx_length. fold cells. lia.
Qed.

Theorem verdict_sound_weak :
  verdict (length cs) cs = true ->
  forall idx, in_bounds (shape V t) idx -> cmp (denote V t idx) (denote V u idx) = true.
Proof.
  unfold verdict.
    intros H. destruct (forallb _ cs) eqn:A1; [|discriminate]. cbn [negb] in H.
    apply andb_true_iff in H. destruct H as [H A4]. apply andb_true_iff in H. destruct H as [A2 A3].
    rewrite forallb_forall in A1. unfold pcoords_all in A3, A4. rewrite forallb_map', forallb_forall in A3, A4.
    intros idx B.
    assert (Bu : in_bounds (shape V u) idx) by (rewrite <- Hshape; exact B).
    destruct (backedb t idx) eqn:Et, (backedb u idx) eqn:Eu.
    + apply backedb_true in Et, Eu. destruct Et as (pi & Hpi & Ei), Eu as (pj & Hpj & Ej).
      assert (Hin : In (map snd pi, map snd pj) cs) by (apply ok_complete; trivial; congruence).
      specialize (A1 _ Hin). cbn [fst snd] in A1.
      rewrite <- Ei at 1. rewrite <- Ej. rewrite (cell_denote V t pi Wt Hpi), (cell_denote V u pj Wu Hpj). exact A1.
    + apply backedb_true in Et. destruct Et as (pi & Hpi & Ei).
      rewrite (unbacked_denote V u idx Wu Bu Eu). rewrite <- Ei, (cell_denote V t pi Wt Hpi).
      specialize (A3 pi Hpi). apply orb_true_iff in A3. destruct A3 as [A3|A3]; [exact A3|].
      exfalso. apply marked_In in A3. apply in_map_iff in A3. destruct A3 as (cc & Fc & Hcc).
      destruct (ok_sound cc Hcc) as (pi' & pj' & Hpi' & Hpj' & Fx & Sx & Cx).
      assert (pi' = pi) by (apply (all_envs_coords_inj (paxes t)); trivial; congruence). subst pi'.
      assert (backedb u idx = true); [|congruence]. apply backedb_true. exists pj'. split; [exact Hpj'|congruence].
    + apply backedb_true in Eu. destruct Eu as (pj & Hpj & Ej).
      rewrite (unbacked_denote V t idx Wt B Et). rewrite <- Ej, (cell_denote V u pj Wu Hpj).
      specialize (A4 pj Hpj). apply orb_true_iff in A4. destruct A4 as [A4|A4]; [exact A4|].
      exfalso. apply marked_In in A4. apply in_map_iff in A4. destruct A4 as (cc & Sc & Hcc).
      destruct (ok_sound cc Hcc) as (pi' & pj' & Hpi' & Hpj' & Fx & Sx & Cx).
      assert (pj' = pj) by (apply (all_envs_coords_inj (paxes u)); trivial; congruence). subst pj'.
      assert (backedb t idx = true); [|congruence]. apply backedb_true. exists pi'. split; [exact Hpi'|congruence].
    + rewrite (unbacked_denote V t idx Wt B Et), (unbacked_denote V u idx Wu Bu Eu).
      apply orb_true_iff in A2. destruct A2 as [A2|A2]; [|exact A2]. exfalso.
      apply count_argument_weak in A2. rewrite forallb_forall in A2. specialize (A2 idx (proj2 (in_cells idx) B)).
      rewrite Et, Eu in A2. discriminate.
Qed.

End Sound.

Section WithOverlap.
Variable cs : list (list nat * list nat).
Hypothesis OK : overlap_ok cs.

Let ok_nodup := proj1 OK.
Let ok_sound := proj1 (proj2 OK).
Let ok_complete := proj2 (proj2 OK).

(** the overlap list is in bijection with the cells backed on both sides *)
Lemma count_overlap :
  length cs = length (filter (fun idx => backedb t idx && backedb u idx) cells).
Proof.
  apply (count_bij pair_cell).
  - eapply NoDup_map_inv. exact ok_nodup.
  - apply all_idx_NoDup.
  - intros x y Hx Hy E. apply (nd_map_injective fst cs ok_nodup); trivial.
    destruct (ok_sound x Hx) as (pi & pj & Hpi & Hpj & Fx & Sx & Cx).
    destruct (ok_sound y Hy) as (pi' & pj' & Hpi' & Hpj' & Fy & Sy & Cy).
    destruct x as [x1 x2], y as [y1 y2]. cbn [fst snd] in *. subst x1 y1.
    rewrite !pair_cell_spec in E by assumption.
    rewrite (cell_inj V t pi pi' Wt Hpi Hpi' E). reflexivity.
  - intros b. rewrite andb_true_iff, !backedb_true. split.
    + intros (_ & (pi & Hpi & Ei) & (pj & Hpj & Ej)).
      exists (map snd pi, map snd pj). split; [apply ok_complete; trivial; congruence|].
      rewrite pair_cell_spec; assumption.
    + intros (cc & Hcc & E). destruct (ok_sound cc Hcc) as (pi & pj & Hpi & Hpj & Fx & Sx & Cx).
      destruct cc as [c1 c2]. cbn [fst snd] in *. subst c1. rewrite pair_cell_spec in E by assumption. subst b.
      split; [apply all_idx_In; apply cell_in_bounds; assumption|]. split; [exists pi; auto|exists pj; auto].
Qed.

(** the counting argument of [equal]: inclusion-exclusion on the two supports *)
Lemma count_argument :
  (fold_right Nat.mul 1 (shape V t) + length cs <=? pnumel (paxes t) + pnumel (paxes u)) = true <->
  forallb (fun idx => backedb t idx || backedb u idx) cells = true.
Proof.
  rewrite Nat.leb_le, <- filter_len_full.
  rewrite <- (count_backed V t Wt), <- (count_backed V u Wu), <- Hshape, count_overlap.
  fold cells. rewrite (filter_incl_excl (backedb t) (backedb u) cells).
  unfold cells at 1. rewrite <- all_idx_length. fold cells. lia.
Qed.

Theorem verdict_correct :
  verdict (length cs) cs = true <->
  forall idx, in_bounds (shape V t) idx -> cmp (denote V t idx) (denote V u idx) = true.
Proof.
  split; [apply (verdict_sound_weak cs ok_sound ok_complete)|]. unfold verdict.
  {
  (* the comparison holds in every cell -> True *)
    intros H.
    assert (A1 : forallb (fun cc => cmp (physical t (fst cc)) (physical u (snd cc))) cs = true).
    { apply forallb_forall. intros cc Hcc. destruct (ok_sound cc Hcc) as (pi & pj & Hpi & Hpj & Fx & Sx & Cx).
      rewrite Fx, Sx, <- (cell_denote V t pi Wt Hpi), <- (cell_denote V u pj Wu Hpj), <- Cx.
      apply H. apply cell_in_bounds; assumption. }
    rewrite A1. cbn [negb]. apply andb_true_iff. split; [apply andb_true_iff; split|].
    + destruct (forallb (fun idx => backedb t idx || backedb u idx) cells) eqn:F.
      * apply count_argument in F. rewrite F. reflexivity.
      * apply forallb_false_ex in F. destruct F as (idx & Hidx & F). apply in_cells in Hidx.
        apply orb_false_iff in F. destruct F as [Et Eu].
        assert (Bu : in_bounds (shape V u) idx) by (rewrite <- Hshape; exact Hidx).
        specialize (H idx Hidx). rewrite (unbacked_denote V t idx Wt Hidx Et), (unbacked_denote V u idx Wu Bu Eu) in H.
        rewrite H. apply orb_true_r.
    + unfold pcoords_all. rewrite forallb_map'. apply forallb_forall. intros pi Hpi.
      pose proof (cell_in_bounds V t pi Wt Hpi) as B.
      assert (Bu : in_bounds (shape V u) (cell_of t pi)) by (rewrite <- Hshape; exact B).
      destruct (backedb u (cell_of t pi)) eqn:Eu.
      * apply backedb_true in Eu. destruct Eu as (pj & Hpj & Ej). apply orb_true_iff. right. apply marked_In.
        apply in_map_iff. exists (map snd pi, map snd pj). split; [reflexivity|]. apply ok_complete; trivial. congruence.
      * apply orb_true_iff. left. specialize (H _ B).
        rewrite (cell_denote V t pi Wt Hpi), (unbacked_denote V u _ Wu Bu Eu) in H. exact H.
    + unfold pcoords_all. rewrite forallb_map'. apply forallb_forall. intros pj Hpj.
      pose proof (cell_in_bounds V u pj Wu Hpj) as Bu.
      assert (B : in_bounds (shape V t) (cell_of u pj)) by (rewrite Hshape; exact Bu).
      destruct (backedb t (cell_of u pj)) eqn:Et.
      * apply backedb_true in Et. destruct Et as (pi & Hpi & Ei). apply orb_true_iff. right. apply marked_In.
        apply in_map_iff. exists (map snd pi, map snd pj). split; [reflexivity|]. apply ok_complete; trivial.
      * apply orb_true_iff. left. specialize (H _ B).
        rewrite (cell_denote V u pj Wu Hpj), (unbacked_denote V t _ Wt B Et) in H. exact H.
  }
Qed.

End WithOverlap.

(** [compare_core] decides the cellwise comparison *)
Theorem compare_core_correct next b :
  (forall cs, overlap_cs next = Ok cs -> overlap_ok cs) ->
  compare_core V cmp next t u = Ok b ->
  (b = true <-> forall idx, in_bounds (shape V t) idx -> cmp (denote V t idx) (denote V u idx) = true).
Proof.
  intros Hov H. rewrite compare_core_verdict in H. destruct (overlap_cs next) as [cs|e] eqn:E; [|discriminate].
  cbn [bind] in H. inversion H; subst b. apply verdict_correct. apply Hov. reflexivity.
Qed.

(** under the premise the model never fails *)
Lemma compare_core_total next :
  (exists cs, overlap_cs next = Ok cs) -> exists b, compare_core V cmp next t u = Ok b.
Proof. intros [cs E]. rewrite compare_core_verdict, E. cbn [bind]. eauto. Qed.

End Compare.
