(** What verdict 0 of [sp_order_check] means (C19, last clause). *)
From Coq Require Import List Arith Bool Permutation.
Import ListNotations.
Require Import Fggs.Model.SCC Fggs.Model.SCCOrder.
Require Import Fggs.Proofs.SCC_ntgraph Fggs.Proofs.SCC_checker Fggs.Proofs.SCC_tarjan.

Lemma llist_eqb_eq a b : llist_eqb a b = true -> a = b.
Proof.
  unfold llist_eqb. revert b. induction a as [|x a IH]; intros [|y b]; simpl; try discriminate; auto.
  rewrite !andb_true_iff. intros [Hl [Hx Hr]].
  apply SCC_ntgraph.list_eqb_eq in Hx. subst y. f_equal. apply IH.
  rewrite andb_true_iff. split; [exact Hl | exact Hr].
Qed.

(** Blocks accepted by the oracle for the nonterminal graph of (nts, rules): every nonterminal is in
    a block (exactly one: NoDup), and everything a rule for it mentions on its right-hand side is in
    the same block or in an EARLIER one (so its value is available when the block is solved). *)
Lemma blocks_dependency_order nts rules blocks :
  closed (ntgraph nts rules) = true -> scc_ok (ntgraph nts rules) blocks = true ->
  NoDup (concat blocks) /\
  forall x, In x nts ->
    exists l1 c l2, blocks = l1 ++ c :: l2 /\ In x c /\
      forall r y, In r rules -> fst r = x -> In (y, true) (snd r) ->
        In y c \/ exists d, In d l1 /\ In y d.
Proof.
  intros Hc Hok. apply (scc_ok_spec _ _ Hc) in Hok.
  destruct Hok as [Hnd [Hperm [_ [_ Hord]]]]. split; [exact Hnd|].
  intros x Hx.
  assert (Hxv : In x (verts (ntgraph nts rules))) by (rewrite ntgraph_verts; exact Hx).
  apply (Permutation_in _ (Permutation_sym Hperm)) in Hxv.
  apply in_concat in Hxv. destruct Hxv as [c [Hcb Hxc]].
  apply in_split in Hcb. destruct Hcb as [l1 [l2 Hb]].
  exists l1, c, l2. split; [exact Hb|]. split; [exact Hxc|].
  intros r y Hr Hlhs Hy.
  assert (Hs : In y (succs (ntgraph nts rules) x)).
  { apply ntgraph_edge. split; [exact Hx|]. exists r. auto. }
  pose proof (closed_succs _ Hc _ _ Hs) as Hyv.
  apply (Permutation_in _ (Permutation_sym Hperm)) in Hyv.
  apply in_concat in Hyv. destruct Hyv as [d [Hdb Hyd]].
  rewrite Hb in Hdb. apply in_app_or in Hdb. destruct Hdb as [Hd | [Hd | Hd]].
  - right. exists d. auto.
  - subst d. left. exact Hyd.
  - exfalso. exact (Hord l1 c l2 d x y Hb Hd Hxc Hyd Hs).
Qed.

Theorem sp_order_check_sound nts rules blocks keys :
  sp_order_check (nts, rules, blocks, keys) = 0 ->
  (forall x, In x nts -> In x keys) /\
  NoDup (concat blocks) /\
  (forall x, In x nts ->
    exists l1 c l2, blocks = l1 ++ c :: l2 /\ In x c /\
      forall r y, In r rules -> fst r = x -> In (y, true) (snd r) ->
        In y c \/ exists d, In d l1 /\ In y d) /\
  scc (ntgraph nts rules) = Some blocks.
Proof.
  unfold sp_order_check.
  destruct (closed (ntgraph nts rules)) eqn:Hc; cbn [negb]; [|discriminate].
  destruct (forallb (mem keys) nts) eqn:Hk; cbn [negb]; [|discriminate].
  destruct (scc_ok (ntgraph nts rules) blocks) eqn:Hok; cbn [negb]; [|discriminate].
  destruct (scc (ntgraph nts rules)) as [cs|] eqn:Hs; [|discriminate].
  destruct (llist_eqb cs blocks) eqn:He; [|discriminate]. intros _.
  apply llist_eqb_eq in He. subst cs.
  destruct (blocks_dependency_order nts rules blocks Hc Hok) as [Hnd Hdep].
  split; [|split; [exact Hnd | split; [exact Hdep | reflexivity]]].
  intros x Hx. rewrite forallb_forall in Hk. apply SCC_checker.mem_In. apply Hk. exact Hx.
Qed.

(** The model's own decomposition always gets verdict 0 when every nonterminal has a value:
    the check is satisfiable for every well-formed grammar (no false alarm is built into it). *)
Theorem sp_order_check_model nts rules :
  closed (ntgraph nts rules) = true ->
  exists cs, scc (ntgraph nts rules) = Some cs /\ sp_order_check (nts, rules, cs, nts) = 0.
Proof.
  intros Hc. destruct (tarjan_correct _ Hc) as [cs [Hs Hok]]. exists cs. split; [exact Hs|].
  unfold sp_order_check. rewrite Hc. cbn [negb].
  assert (Hk : forallb (mem nts) nts = true).
  { apply forallb_forall. intros x Hx. apply SCC_checker.mem_In. exact Hx. }
  rewrite Hk, Hok, Hs. cbn [negb]. rewrite llist_eqb_refl. reflexivity.
Qed.

(** The shape of the class "decomposition remembered across an in-place edit": S -> A B, A -> a,
    B -> b decomposes as [A],[B],[S]; after the edit A -> a B the remembered decomposition is
    rejected (verdict 1) and the current one, [B],[A],[S], accepted; a cycle split by removing an
    edge (A -> B, B -> A, then B -> b only) makes the remembered joint block [B;A] wrong too.
    Nonterminals S=0 A=1 B=2, terminals 1000.. *)
Example sp_order_check_example :
  let nts := [0; 1; 2] in
  let before := [(0, [(1, true); (2, true)]); (1, [(1000, false)]); (2, [(1001, false)])] in
  let after  := [(0, [(1, true); (2, true)]); (1, [(1000, false); (2, true)]); (2, [(1001, false)])] in
  let cyc    := [(0, [(1, true); (2, true)]); (1, [(1000, false); (2, true)]); (2, [(1001, false); (1, true)])] in
  sp_order_check (nts, before, [[1]; [2]; [0]], nts) = 0 /\
  sp_order_check (nts, after,  [[1]; [2]; [0]], nts) = 1 /\
  sp_order_check (nts, after,  [[2]; [1]; [0]], nts) = 0 /\
  sp_order_check (nts, after,  [[2]; [1]; [0]], [0; 2]) = 3 /\
  sp_order_check (nts, cyc,    [[2; 1]; [0]], nts) = 0 /\
  sp_order_check (nts, after,  [[2; 1]; [0]], nts) = 1.
Proof. vm_compute. repeat split. Qed.
