(** C09 -- [multi_solve_model] (block LU over present blocks + block back-substitution,
    Model/MultiSolve.v) refines the block elimination [belim] of Proofs/SolveBlock.v
    instantiated with N x N matrices (Proofs/SolveMatInst.v), for every bound N of the block
    sizes, every elimination order without duplicates and every presence pattern.
    - [lu_inner_sem], [lu_row_sem], [lu_rows_sem]: one pivot step of the LU loop computes the
      Schur complement [belimA]/[belimb] on the rows still to be eliminated and leaves the other
      rows alone; presence tests are sound because an absent block reads as the zero matrix
      (annihilation, star of zero = identity);
    - [bstep_sem]: one step of the back-substitution;
    - [lu_back_belim]: by induction on the order, the blocks of the result are [belim]. *)
From Coq Require Import List Arith Lia Bool PeanoNat Ring Setoid Morphisms.
Import ListNotations.
Require Import Fggs.Model.Semiring Fggs.Model.Solve Fggs.Model.MultiSolve.
Require Import Fggs.Proofs.SolveElim Fggs.Proofs.SolveRefine Fggs.Proofs.SolveBlock
               Fggs.Proofs.SolveMatInst Fggs.Proofs.SolveStar Fggs.Proofs.MultiMV
               Fggs.Proofs.MultiSolveSem.

Section LU.
Context {S : Type} (o : sr_ops S).
Hypothesis Hring : sr_ring o.
Hypothesis Hord : sr_ordered o.
Hypothesis Hstar : sr_star o.
Let SRth : semi_ring_theory (zero o) (one o) (add o) (mul o) (@eq S) := Hring.
Add Ring Sring7 : SRth.
Notation "a ⊕ b" := (add o a b) (at level 50, left associativity).
Notation "a ⊗ b" := (mul o a b) (at level 40, left associativity).

Variable d : dims_t.
Variable N : nat.
Hypothesis HN : forall x, dim d x <= N.
Let idx := seq 0 N.

Notation sA := (semA o d).
Notation sb := (semb o d).
Notation "a ≡ b" := (meq N a b) (at level 70).
Notation CA := (cadd o).
Notation CM := (cmul o N).
Notation RS := (rstar o N).
Notation ACT := (act o N).
Notation VA := (vadd o N).
Notation S1 := (solve1 o N).
Notation GV := (gv o N).
Let L := mat_semimodule o Hring Hord Hstar N.

#[local] Existing Instance meq_equiv.
#[local] Existing Instance cadd_proper.
#[local] Existing Instance cmul_proper.

(** the block vector read from the dictionary *)
Definition semB (b : @mt1 S) (x : key) : nvec N := mkV N (sb b x).

Lemma gv_semB b x i : i < N -> GV (semB b x) i = sb b x i.
Proof. intros H. unfold semB. exact (gv_mkV o N _ i H). Qed.
Lemma gv_vadd u v i : i < N -> GV (VA u v) i = GV u i ⊕ GV v i.
Proof. intros H. unfold vadd. exact (gv_mkV o N _ i H). Qed.
Lemma gv_act a v i : i < N -> GV (ACT a v) i = sumS o nat idx (fun j => a i j ⊗ GV v j).
Proof. intros H. unfold act. exact (gv_mkV o N _ i H). Qed.
Lemma gv_solve1 a r i : i < N -> GV (S1 a r) i = gjf o nat idx a (GV r) i.
Proof. intros H. unfold solve1. exact (gv_mkV o N _ i H). Qed.
Lemma in_idx k : In k idx -> k < N.
Proof. unfold idx. rewrite in_seq. lia. Qed.

Lemma semB_lookup b b' x : lookup1 b' x = lookup1 b x -> semB b' x = semB b x.
Proof. intros E. unfold semB. rewrite (semb_lookup o d b b' x E). reflexivity. Qed.

#[local] Instance rstar_proper : Proper (meq N ==> meq N ==> meq N) RS.
Proof.
  intros a a' Ha s s' Hs i j Hi Hj. unfold rstar, cmul. apply sumS_ext. intros k Hk.
  apply in_seq in Hk. rewrite (Ha i k) by lia.
  rewrite (star_mat_meq o N s s' Hs k j) by lia. reflexivity.
Qed.

Lemma act_meq a a' v : a ≡ a' -> ACT a v = ACT a' v.
Proof.
  intros H. apply (nvec_ext o). intros i Hi. rewrite !gv_act by exact Hi.
  apply sumS_ext. intros j Hj. apply in_idx in Hj. rewrite H by assumption. reflexivity.
Qed.
Lemma solve1_meq a a' r : a ≡ a' -> S1 a r = S1 a' r.
Proof.
  intros H. apply (nvec_ext o). intros i Hi. rewrite !gv_solve1 by exact Hi.
  apply (gjf_ext o nat (fun i => i < N)); [intros k Hk; apply in_idx; exact Hk| |reflexivity|exact Hi].
  intros i' j Hi' Hj. apply in_idx in Hj. apply H; assumption.
Qed.
(** adding the action of a zero coefficient, or on a zero vector, changes nothing *)
Lemma vadd_act_zero_coef u a v : (forall i j, a i j = zero o) -> VA u (ACT a v) = u.
Proof.
  intros H. apply (nvec_ext o). intros i Hi. rewrite gv_vadd, gv_act by exact Hi.
  rewrite (sumS_all_zero o Hring) by (intros k _; rewrite H; ring). ring.
Qed.
Lemma vadd_act_zero_vec u a v : (forall i, i < N -> GV v i = zero o) -> VA u (ACT a v) = u.
Proof.
  intros H. apply (nvec_ext o). intros i Hi. rewrite gv_vadd, gv_act by exact Hi.
  rewrite (sumS_all_zero o Hring) by (intros k Hk; apply in_idx in Hk; rewrite H by exact Hk; ring). ring.
Qed.

(** * the LU loop *)
(** [for y in order[k+1:]]: one iteration *)
Definition inner_step (z x : key) (a : @mt2 S) (y : key) : @mt2 S :=
  match lookup2 a z y with
  | Some azy => add_single2 o d a x y (mm_model o (dim d x) (dim d z) (dim d y) (getm o d d a x z) azy)
  | None => a
  end.

Lemma lu_inner_cons z x y ys a :
  lu_inner o d z x (y :: ys) a = lu_inner o d z x ys (inner_step z x a y).
Proof. reflexivity. Qed.

Lemma inner_step_sem z x a y :
  sA (inner_step z x a y) x y ≡ CA (sA a x y) (CM (sA a x z) (sA a z y))
  /\ forall x' y', (x, y) <> (x', y') -> lookup2 (inner_step z x a y) x' y' = lookup2 a x' y'.
Proof.
  unfold inner_step. destruct (lookup2 a z y) as [azy|] eqn:Lzy; split.
  - intros i j _ _. rewrite (semA_add_single2_same o Hring). unfold cadd. f_equal.
    rewrite (pad2_mm o Hring N) by apply HN. unfold cmul. apply sumS_ext. intros k _.
    rewrite (semA_present o d a z y azy Lzy). reflexivity.
  - intros x' y' Hne. apply lookup2_add_single2_other. exact Hne.
  - intros i j _ _. unfold cadd.
    rewrite (cmul_zero_r o Hring N) by (apply semA_absent; exact Lzy). ring.
  - reflexivity.
Qed.

Lemma lu_inner_sem z x : x <> z -> forall ys a, ~ In z ys -> NoDup ys ->
  (forall y, In y ys ->
     sA (lu_inner o d z x ys a) x y ≡ CA (sA a x y) (CM (sA a x z) (sA a z y)))
  /\ (forall y, ~ In y ys -> lookup2 (lu_inner o d z x ys a) x y = lookup2 a x y)
  /\ (forall x' y, x' <> x -> lookup2 (lu_inner o d z x ys a) x' y = lookup2 a x' y).
Proof.
  intros Hxz. induction ys as [|y0 ys IH]; intros a Hz ND.
  - split; [intros y []|split; reflexivity].
  - inversion ND as [|? ? Hy0 ND']; subst. rewrite lu_inner_cons.
    destruct (inner_step_sem z x a y0) as [S1' F1].
    assert (Hz' : ~ In z ys) by (intros H; apply Hz; now right).
    assert (Hzy0 : z <> y0) by (intros ->; apply Hz; now left).
    destruct (IH (inner_step z x a y0) Hz' ND') as (I1 & I2 & I3).
    split; [|split].
    + intros y [<-|Hy].
      * rewrite (semA_lookup o d _ _ x y0 (I2 y0 Hy0)). exact S1'.
      * assert (Hne : y <> y0) by (intros ->; contradiction).
        rewrite (I1 y Hy).
        rewrite (semA_lookup o d a _ x y (F1 x y ltac:(congruence))).
        rewrite (semA_lookup o d a _ x z (F1 x z ltac:(congruence))).
        rewrite (semA_lookup o d a _ z y (F1 z y ltac:(congruence))). reflexivity.
    + intros y Hy. rewrite I2 by (intros H; apply Hy; now right).
      apply F1. intros E. apply Hy. left. congruence.
    + intros x' y Hx'. rewrite I3 by exact Hx'. apply F1. congruence.
Qed.

(** body of [for x in order[k+1:]] for one x *)
Lemma lu_row_sem z rest a b x : ~ In z rest -> NoDup rest -> x <> z ->
  let st' := lu_row o d z rest (a, b) x in
  let R := RS (sA a x z) (sA a z z) in
  (forall y, In y rest -> sA (fst st') x y ≡ CA (sA a x y) (CM R (sA a z y)))
  /\ semB (snd st') x = VA (semB b x) (ACT R (semB b z))
  /\ (forall x' y, x' <> x -> lookup2 (fst st') x' y = lookup2 a x' y)
  /\ (forall x', x' <> x -> lookup1 (snd st') x' = lookup1 b x').
Proof.
  intros Hz ND Hxz st' R. unfold lu_row in st'.
  destruct (lookup2 a x z) as [axz|] eqn:Lxz.
  - (* present *)
    set (a2 := match lookup2 a z z with
               | Some azz => set2 a x z (rsolve_model o (dim d z) (dim d x) azz axz)
               | None => a end).
    assert (Ha2 : sA a2 x z ≡ R /\ forall x' y', (x, z) <> (x', y') -> lookup2 a2 x' y' = lookup2 a x' y').
    { unfold a2. destruct (lookup2 a z z) as [azz|] eqn:Lzz; split.
      - assert (E : lookup2 (set2 a x z (rsolve_model o (dim d z) (dim d x) azz axz)) x z
                    = Some (rsolve_model o (dim d z) (dim d x) azz axz))
          by (rewrite lookup2_set2, !Nat.eqb_refl; reflexivity).
        rewrite (semA_present o d _ x z _ E). intros i k Hi Hk.
        rewrite (pad2_rsolve o Hring N Hord Hstar) by (try apply HN; exact Hk).
        unfold R, rstar, cmul. apply sumS_ext. intros l _.
        rewrite (semA_present o d a x z axz Lxz), (semA_present o d a z z azz Lzz). reflexivity.
      - intros x' y' Hne. rewrite lookup2_set2.
        destruct (Nat.eqb_spec x x') as [<-|]; [|reflexivity].
        destruct (Nat.eqb_spec z y') as [<-|]; [congruence|reflexivity].
      - symmetry. apply (rstar_zero_diag o Hring). apply semA_absent. exact Lzz.
      - reflexivity. }
    destruct Ha2 as [Ha2 Fa2].
    set (a3 := lu_inner o d z x rest a2).
    destruct (lu_inner_sem z x Hxz rest a2 Hz ND) as (I1 & I2 & I3). fold a3 in I1, I2, I3.
    set (b' := match lookup1 b z with
               | Some bz => add_single1 o d b x (mv_model o (dim d x) (dim d z) (getm o d d a3 x z) bz)
               | None => b end).
    assert (Est : st' = (a3, b')) by reflexivity.
    rewrite Est. cbn [fst snd].
    assert (Ha3 : sA a3 x z ≡ R).
    { rewrite (semA_lookup o d a2 a3 x z (I2 z Hz)). exact Ha2. }
    split; [|split; [|split]].
    + intros y Hy. rewrite (I1 y Hy).
      assert (Hyz : y <> z) by (intros ->; contradiction).
      rewrite (semA_lookup o d a a2 x y (Fa2 x y ltac:(congruence))).
      rewrite (semA_lookup o d a a2 z y (Fa2 z y ltac:(congruence))).
      rewrite Ha2. reflexivity.
    + unfold b'. destruct (lookup1 b z) as [bz|] eqn:Lz.
      * apply (nvec_ext o). intros i Hi.
        rewrite gv_vadd, gv_act, !gv_semB by exact Hi.
        rewrite (semb_add_single1_same o Hring). f_equal.
        rewrite (pad1_mv o Hring N) by apply HN.
        apply sumS_ext. intros k Hk. apply in_idx in Hk. rewrite gv_semB by exact Hk.
        rewrite (semb_present o d b z bz Lz). f_equal. exact (Ha3 i k Hi Hk).
      * symmetry. apply vadd_act_zero_vec. intros i Hi. rewrite gv_semB by exact Hi.
        apply semb_absent. exact Lz.
    + intros x' y Hx'. rewrite I3 by exact Hx'. apply Fa2. congruence.
    + intros x' Hx'. unfold b'. destruct (lookup1 b z); [|reflexivity].
      apply lookup1_add_single1_other. congruence.
  - (* a[x,z] absent: nothing happens, and the Schur update is zero *)
    assert (Est : st' = (a, b)) by reflexivity. rewrite Est. cbn [fst snd].
    assert (HR : forall i j, R i j = zero o).
    { intros i j. unfold R, rstar. apply (cmul_zero_l o Hring). apply semA_absent. exact Lxz. }
    split; [|split; [|split]].
    + intros y _ i j _ _. unfold cadd. rewrite (cmul_zero_l o Hring N) by exact HR. ring.
    + symmetry. apply vadd_act_zero_coef. exact HR.
    + reflexivity.
    + reflexivity.
Qed.

(** the loop [for x in order[k+1:]] *)
Lemma lu_rows_sem z rest : ~ In z rest -> NoDup rest ->
  forall xs a b, NoDup xs -> (forall x, In x xs -> In x rest) ->
  let st' := fold_left (lu_row o d z rest) xs (a, b) in
  (forall x y, In x xs -> In y rest ->
     sA (fst st') x y ≡ CA (sA a x y) (CM (RS (sA a x z) (sA a z z)) (sA a z y)))
  /\ (forall x, In x xs -> semB (snd st') x = VA (semB b x) (ACT (RS (sA a x z) (sA a z z)) (semB b z)))
  /\ (forall x' y, ~ In x' xs -> lookup2 (fst st') x' y = lookup2 a x' y)
  /\ (forall x', ~ In x' xs -> lookup1 (snd st') x' = lookup1 b x').
Proof.
  intros Hz ND. induction xs as [|x0 xs IH]; intros a b NDx Hsub.
  - cbn [fold_left fst snd]. split; [intros x y []|split; [intros x []|split; reflexivity]].
  - inversion NDx as [|? ? Hx0 NDx']; subst. cbn [fold_left].
    assert (Hx0z : x0 <> z) by (intros ->; apply Hz; apply Hsub; now left).
    destruct (lu_row_sem z rest a b x0 Hz ND Hx0z) as (R1 & R2 & R3 & R4).
    destruct (lu_row o d z rest (a, b) x0) as [a1 b1]. cbn [fst snd] in R1, R2, R3, R4.
    destruct (IH a1 b1 NDx' (fun x H => Hsub x (or_intror H))) as (I1 & I2 & I3 & I4).
    assert (Hzx0 : z <> x0) by congruence.
    split; [|split; [|split]].
    + intros x y [<-|Hx] Hy.
      * rewrite (semA_lookup o d _ _ x0 y (I3 x0 y Hx0)). apply R1. exact Hy.
      * assert (Hne : x <> x0) by (intros ->; contradiction).
        rewrite (I1 x y Hx Hy).
        rewrite (semA_lookup o d a a1 x y (R3 x y Hne)), (semA_lookup o d a a1 x z (R3 x z Hne)),
                (semA_lookup o d a a1 z z (R3 z z Hzx0)), (semA_lookup o d a a1 z y (R3 z y Hzx0)).
        reflexivity.
    + intros x [<-|Hx].
      * rewrite (semB_lookup _ _ x0 (I4 x0 Hx0)). exact R2.
      * assert (Hne : x <> x0) by (intros ->; contradiction).
        rewrite (I2 x Hx).
        rewrite (semA_lookup o d a a1 x z (R3 x z Hne)), (semA_lookup o d a a1 z z (R3 z z Hzx0)).
        rewrite (semB_lookup b b1 x (R4 x Hne)), (semB_lookup b b1 z (R4 z Hzx0)). reflexivity.
    + intros x' y Hx'. rewrite I3 by (intros H; apply Hx'; now right).
      apply R3. intros ->. apply Hx'. now left.
    + intros x' Hx'. rewrite I4 by (intros H; apply Hx'; now right).
      apply R4. intros ->. apply Hx'. now left.
Qed.

(** rows outside the order are not touched by the LU loop *)
Lemma lu_loop_frame order : NoDup order -> forall a b,
  (forall x y, ~ In x order -> lookup2 (fst (lu_loop o d order (a, b))) x y = lookup2 a x y)
  /\ (forall x, ~ In x order -> lookup1 (snd (lu_loop o d order (a, b))) x = lookup1 b x).
Proof.
  induction order as [|z rest IH]; intros ND a b; [split; reflexivity|].
  inversion ND as [|? ? Hz ND']; subst. cbn [lu_loop].
  destruct (lu_rows_sem z rest Hz ND' rest a b ND' (fun x H => H)) as (_ & _ & F3 & F4).
  destruct (fold_left (lu_row o d z rest) rest (a, b)) as [a1 b1]. cbn [fst snd] in F3, F4.
  destruct (IH ND' a1 b1) as [G1 G2]. split.
  - intros x y Hx. rewrite G1 by (intros H; apply Hx; now right). apply F3. intros H; apply Hx; now right.
  - intros x Hx. rewrite G2 by (intros H; apply Hx; now right). apply F4. intros H; apply Hx; now right.
Qed.

(** * the back-substitution *)
(** body of [for k,z in reversed(list(enumerate(order)))], with [es] = the earlier keys *)
Definition bstep (a : @mt2 S) (z : key) (es : list key) (b : @mt1 S) : @mt1 S :=
  match lookup1 b z with
  | None => b
  | Some bz =>
    let b := match lookup2 a z z with
             | Some azz => set1 b z (solve_model o (dim d z) azz bz)
             | None => b
             end in
    fold_left (fun (b : @mt1 S) (x : key) =>
                 match lookup2 a x z with
                 | Some axz => add_single1 o d b x (mv_model o (dim d x) (dim d z) axz (getv o d b z))
                 | None => b
                 end)
              es b
  end.
(** the loop over [ro] when [suffix] are further earlier keys *)
Fixpoint back_gen (a : @mt2 S) (ro suffix : list key) (b : @mt1 S) : @mt1 S :=
  match ro with
  | [] => b
  | z :: earlier => back_gen a earlier suffix (bstep a z (earlier ++ suffix) b)
  end.

Lemma back_loop_cons a z earlier b :
  back_loop o d a (z :: earlier) b = back_loop o d a earlier (bstep a z earlier b).
Proof. reflexivity. Qed.

Lemma back_loop_app a ro : forall suffix b,
  back_loop o d a (ro ++ suffix) b = back_loop o d a suffix (back_gen a ro suffix b).
Proof.
  induction ro as [|z ro IH]; intros suffix b; [reflexivity|].
  cbn [app back_gen]. rewrite back_loop_cons. apply IH.
Qed.

Lemma back_loop_gen a ro b : back_loop o d a ro b = back_gen a ro [] b.
Proof. rewrite <- (app_nil_r ro) at 1. rewrite back_loop_app. reflexivity. Qed.

Lemma back_gen_app a ro1 : forall ro2 suffix b,
  back_gen a (ro1 ++ ro2) suffix b = back_gen a ro2 suffix (back_gen a ro1 (ro2 ++ suffix) b).
Proof.
  induction ro1 as [|z ro1 IH]; intros ro2 suffix b; [reflexivity|].
  cbn [app back_gen]. rewrite IH. rewrite <- app_assoc. reflexivity.
Qed.

Definition bsub_step (a : @mt2 S) (z : key) (b : @mt1 S) (x : key) : @mt1 S :=
  match lookup2 a x z with
  | Some axz => add_single1 o d b x (mv_model o (dim d x) (dim d z) axz (getv o d b z))
  | None => b
  end.

Lemma bsub_fold_sem a z : forall es b, ~ In z es -> NoDup es ->
  (forall x, In x es ->
     semB (fold_left (bsub_step a z) es b) x = VA (semB b x) (ACT (sA a x z) (semB b z)))
  /\ (forall x, ~ In x es -> lookup1 (fold_left (bsub_step a z) es b) x = lookup1 b x).
Proof.
  induction es as [|x0 es IH]; intros b Hz ND.
  - split; [intros x []|reflexivity].
  - inversion ND as [|? ? Hx0 ND']; subst. cbn [fold_left].
    assert (Hzx0 : x0 <> z) by (intros ->; apply Hz; now left).
    assert (F : forall x, x <> x0 -> lookup1 (bsub_step a z b x0) x = lookup1 b x).
    { intros x Hx. unfold bsub_step. destruct (lookup2 a x0 z); [|reflexivity].
      apply lookup1_add_single1_other. congruence. }
    assert (S0 : semB (bsub_step a z b x0) x0 = VA (semB b x0) (ACT (sA a x0 z) (semB b z))).
    { unfold bsub_step. destruct (lookup2 a x0 z) as [axz|] eqn:Lxz.
      - apply (nvec_ext o). intros i Hi. rewrite gv_vadd, gv_act, !gv_semB by exact Hi.
        rewrite (semb_add_single1_same o Hring). f_equal.
        rewrite (pad1_mv o Hring N) by apply HN.
        apply sumS_ext. intros k Hk. apply in_idx in Hk. rewrite gv_semB by exact Hk.
        rewrite (semA_present o d a x0 z axz Lxz). reflexivity.
      - symmetry. apply vadd_act_zero_coef. apply semA_absent. exact Lxz. }
    destruct (IH (bsub_step a z b x0) (fun H => Hz (or_intror H)) ND') as [I1 I2].
    split.
    + intros x [<-|Hx].
      * rewrite (semB_lookup _ _ x0 (I2 x0 Hx0)). exact S0.
      * assert (Hne : x <> x0) by (intros ->; contradiction).
        rewrite (I1 x Hx). rewrite (semB_lookup b _ x (F x Hne)), (semB_lookup b _ z (F z (not_eq_sym Hzx0))).
        reflexivity.
    + intros x Hx. rewrite I2 by (intros H; apply Hx; now right).
      apply F. intros ->. apply Hx. now left.
Qed.

Lemma bstep_sem a z es b : ~ In z es -> NoDup es ->
  let xz := S1 (sA a z z) (semB b z) in
  semB (bstep a z es b) z = xz
  /\ (forall x, In x es -> semB (bstep a z es b) x = VA (semB b x) (ACT (sA a x z) xz))
  /\ (forall x, x <> z -> ~ In x es -> lookup1 (bstep a z es b) x = lookup1 b x).
Proof.
  intros Hz ND xz. unfold bstep.
  destruct (lookup1 b z) as [bz|] eqn:Lz.
  - set (b1 := match lookup2 a z z with
               | Some azz => set1 b z (solve_model o (dim d z) azz bz)
               | None => b end).
    assert (Hb1 : semB b1 z = xz /\ forall x, x <> z -> lookup1 b1 x = lookup1 b x).
    { unfold b1. destruct (lookup2 a z z) as [azz|] eqn:Lzz; split.
      - apply (nvec_ext o). intros i Hi. unfold xz. rewrite gv_solve1, gv_semB by exact Hi.
        assert (E : lookup1 (set1 b z (solve_model o (dim d z) azz bz)) z
                    = Some (solve_model o (dim d z) azz bz))
          by (rewrite lookup1_set1, Nat.eqb_refl; reflexivity).
        rewrite (semb_present o d _ z _ E).
        rewrite (pad1_solve o Hring N) by (try apply HN; exact Hi).
        apply (gjf_ext o nat (fun i => i < N)); [intros k Hk; apply in_idx; exact Hk| | |exact Hi].
        + intros i' j _ _. rewrite (semA_present o d a z z azz Lzz). reflexivity.
        + intros i' Hi'. rewrite gv_semB by exact Hi'. rewrite (semb_present o d b z bz Lz). reflexivity.
      - intros x Hx. rewrite lookup1_set1. destruct (Nat.eqb_spec z x); [congruence|reflexivity].
      - apply (nvec_ext o). intros i Hi. unfold xz. rewrite gv_solve1 by exact Hi.
        symmetry. apply (gjf_zero_cols o Hring). intros k _ i'. apply semA_absent. exact Lzz.
      - reflexivity. }
    destruct Hb1 as [Hb1 Fb1].
    change (fold_left _ es b1) with (fold_left (bsub_step a z) es b1).
    destruct (bsub_fold_sem a z es b1 Hz ND) as [I1 I2].
    split; [|split].
    + rewrite (semB_lookup _ _ z (I2 z Hz)). exact Hb1.
    + intros x Hx. rewrite (I1 x Hx). rewrite Hb1.
      assert (Hne : x <> z) by (intros ->; contradiction).
      rewrite (semB_lookup b b1 x (Fb1 x Hne)). reflexivity.
    + intros x Hx Hx'. rewrite I2 by exact Hx'. apply Fb1. exact Hx.
  - (* b[z] absent: the block is zero and stays so *)
    assert (Hxz : forall i, i < N -> GV xz i = zero o).
    { intros i Hi. unfold xz. rewrite gv_solve1 by exact Hi. apply (gjf_zero_rhs o Hring).
      intros i'. destruct (Nat.ltb_spec i' N) as [Hi'|Hi'].
      - rewrite gv_semB by exact Hi'. apply semb_absent. exact Lz.
      - unfold gv, semB, mkV. cbn [vv]. unfold get1, tab1. apply nth_overflow.
        rewrite map_length, seq_length. exact Hi'. }
    split; [|split].
    + apply (nvec_ext o). intros i Hi. rewrite Hxz by exact Hi. rewrite gv_semB by exact Hi.
      apply semb_absent. exact Lz.
    + intros x _. symmetry. apply vadd_act_zero_vec. exact Hxz.
    + reflexivity.
Qed.

(** * the refinement *)
Notation BEL := (belim coef (nvec N) (cadd o) (cmul o N) (act o N) (vadd o N) (vzero o N)
                       (solve1 o N) (rstar o N) key Nat.eq_dec).
Notation SUMV := (sumV (nvec N) (vadd o N) (vzero o N) key).

Theorem lu_back_belim : forall order, NoDup order -> forall a b (A : key -> key -> coef) (B : key -> nvec N) pre,
  NoDup pre -> (forall x, In x order -> ~ In x pre) ->
  (forall x y, In x order -> In y order -> sA a x y ≡ A x y) ->
  (forall x, In x order -> semB b x = B x) ->
  let st := lu_loop o d order (a, b) in
  let out := back_gen (fst st) (rev order) pre (snd st) in
  (forall x, In x order -> semB out x = BEL order A B x)
  /\ (forall y, In y pre ->
        semB out y = VA (semB b y) (SUMV order (fun w => ACT (sA a y w) (BEL order A B w))))
  /\ (forall y, ~ In y order -> ~ In y pre -> lookup1 out y = lookup1 b y).
Proof.
  induction order as [|z rest IH]; intros ND a b A B pre NDp Hdisj HA HB.
  - cbn [lu_loop rev back_gen fst snd]. split; [intros x []|split].
    + intros y _. cbn [sumV]. symmetry. apply (vadd_0_r _ _ _ _ _ _ _ _ _ _ L).
    + reflexivity.
  - inversion ND as [|? ? Hz ND']; subst.
    cbn [lu_loop rev]. cbv zeta.
    (* the pivot step *)
    destruct (lu_rows_sem z rest Hz ND' rest a b ND' (fun x H => H)) as (R1 & R2 & R3 & R4).
    destruct (fold_left (lu_row o d z rest) rest (a, b)) as [a1 b1]. cbn [fst snd] in R1, R2, R3, R4.
    set (A1 := belimA coef (cadd o) (cmul o N) (rstar o N) key A z).
    set (B1 := belimb coef (nvec N) (act o N) (vadd o N) (rstar o N) key A B z).
    assert (Hzz : In z (z :: rest)) by now left.
    assert (HA1 : forall x y, In x rest -> In y rest -> sA a1 x y ≡ A1 x y).
    { intros x y Hx Hy. rewrite (R1 x y Hx Hy). unfold A1, belimA.
      rewrite (HA x y (or_intror Hx) (or_intror Hy)), (HA x z (or_intror Hx) Hzz),
              (HA z z Hzz Hzz), (HA z y Hzz (or_intror Hy)). reflexivity. }
    assert (HB1 : forall x, In x rest -> semB b1 x = B1 x).
    { intros x Hx. rewrite (R2 x Hx). unfold B1, belimb.
      rewrite (HB x (or_intror Hx)), (HB z Hzz). f_equal. apply act_meq.
      rewrite (HA x z (or_intror Hx) Hzz), (HA z z Hzz Hzz). reflexivity. }
    assert (NDp' : NoDup (z :: pre)).
    { constructor; [apply Hdisj; now left|exact NDp]. }
    assert (Hdisj' : forall x, In x rest -> ~ In x (z :: pre)).
    { intros x Hx [<-|Hp]; [contradiction|]. apply (Hdisj x (or_intror Hx) Hp). }
    specialize (IH ND' a1 b1 A1 B1 (z :: pre) NDp' Hdisj' HA1 HB1). cbv zeta in IH.
    destruct (lu_loop_frame rest ND' a1 b1) as [G1 G2].
    set (af := fst (lu_loop o d rest (a1, b1))) in *.
    set (bf := snd (lu_loop o d rest (a1, b1))) in *.
    destruct IH as (C1 & C2 & C3).
    rewrite back_gen_app. cbn [back_gen app].
    set (mid := back_gen af (rev rest) (z :: pre) bf) in *.
    set (x' := BEL rest A1 B1) in *.
    assert (Hzpre : ~ In z pre) by (apply Hdisj; now left).
    destruct (bstep_sem af z pre mid Hzpre NDp) as (T1 & T2 & T3). cbv zeta in T1, T2.
    set (out := bstep af z pre mid) in *.
    (* the value at z *)
    set (Xz := S1 (A z z) (VA (SUMV rest (fun j => ACT (A z j) (x' j))) (B z))).
    assert (Ezz : sA af z z ≡ A z z).
    { rewrite (semA_lookup o d a1 _ z z (G1 z z Hz)).
      rewrite (semA_lookup o d a a1 z z (R3 z z Hz)). apply HA; exact Hzz. }
    assert (Emid : semB mid z = VA (SUMV rest (fun j => ACT (A z j) (x' j))) (B z)).
    { rewrite (C2 z (or_introl eq_refl)). rewrite (vadd_comm _ _ _ _ _ _ _ _ _ _ L).
      rewrite (semB_lookup b b1 z (R4 z Hz)), (HB z Hzz). f_equal.
      apply sumV_ext. intros w Hw. apply act_meq.
      rewrite (semA_lookup o d a a1 z w (R3 z w Hz)). apply HA; [exact Hzz|now right]. }
    assert (EXz : semB out z = Xz).
    { rewrite T1. rewrite Emid. unfold Xz. apply solve1_meq. exact Ezz. }
    assert (Ebel : forall w, BEL (z :: rest) A B w = SolveBlock.upd (nvec N) key Nat.eq_dec x' z Xz w)
      by reflexivity.
    assert (Eupd_z : SolveBlock.upd (nvec N) key Nat.eq_dec x' z Xz z = Xz).
    { unfold SolveBlock.upd. destruct (Nat.eq_dec z z); [reflexivity|congruence]. }
    assert (Eupd_o : forall w, w <> z -> SolveBlock.upd (nvec N) key Nat.eq_dec x' z Xz w = x' w).
    { intros w Hw. unfold SolveBlock.upd. destruct (Nat.eq_dec w z); [contradiction|reflexivity]. }
    split; [|split].
    + intros x [<-|Hx].
      * rewrite Ebel, Eupd_z. exact EXz.
      * assert (Hne : x <> z) by (intros ->; contradiction).
        rewrite Ebel, (Eupd_o x Hne).
        rewrite (semB_lookup mid out x (T3 x Hne (Hdisj x (or_intror Hx)))). apply C1. exact Hx.
    + intros y Hy.
      assert (Hyo : ~ In y (z :: rest)) by (intros H; apply (Hdisj y H Hy)).
      assert (Hyz : y <> z) by (intros ->; apply Hyo; now left).
      assert (Hyr : ~ In y rest) by (intros H; apply Hyo; now right).
      rewrite (T2 y Hy). rewrite T1 in EXz. rewrite EXz.
      rewrite (C2 y (or_intror Hy)).
      rewrite (semB_lookup b b1 y (R4 y Hyr)).
      cbn [sumV]. rewrite Ebel, Eupd_z.
      rewrite (sumV_ext _ _ _ _ rest (fun w => ACT (sA a y w) (BEL (z :: rest) A B w))
                 (fun w => ACT (sA a1 y w) (x' w))).
      2:{ intros w Hw. rewrite Ebel, Eupd_o by (intros ->; contradiction).
          rewrite (semA_lookup o d a a1 y w (R3 y w Hyr)). reflexivity. }
      rewrite (semA_lookup o d a1 _ y z (G1 y z Hyr)).
      rewrite (semA_lookup o d a a1 y z (R3 y z Hyr)).
      rewrite <- (vadd_assoc _ _ _ _ _ _ _ _ _ _ L). f_equal.
      apply (vadd_comm _ _ _ _ _ _ _ _ _ _ L).
    + intros y Hyo Hyp.
      assert (Hyz : y <> z) by (intros ->; apply Hyo; now left).
      assert (Hyr : ~ In y rest) by (intros H; apply Hyo; now right).
      rewrite (T3 y Hyz Hyp).
      rewrite C3; [|exact Hyr|intros [E|H]; [congruence|contradiction]].
      apply R4. exact Hyr.
Qed.

End LU.
