(** C09 tier B -- what verdict 0 of [psolve_axis_check] means for the implementation's observed
    solution axis [i_e]: on the normal exit its support contains the support of [b] and is closed
    under [a] (so, by [scatter_solve_gather], solving the system gathered along it gives the least
    solution); on the [b.clone()] exit no column of [a] meets the support of [b]. *)
From Coq Require Import List Arith Lia PeanoNat Bool PArith.
Import ListNotations.
Require Import Fggs.Model.Axis Fggs.Model.AxisCheck Fggs.Model.PTensor Fggs.Model.PSolve Fggs.Model.PSolveCheck.
Require Import Fggs.Proofs.PSolve_anti Fggs.Proofs.PSolve_step Fggs.Proofs.PSolve_loop Fggs.Proofs.PSolve_oracle.

Theorem psolve_axis_check_sound a_zero aps avs b_zero bps bvs next i_tag i_e i_iters i_warn a0 a1 b0 ebs r :
  psolve_axes a_zero b_zero aps avs bps bvs next = Some (a0, a1, b0, ebs, r) ->
  psolve_axis_check ((a_zero, aps, avs), (b_zero, bps, bvs), next, (i_tag, i_e, i_iters, i_warn)) = 0 ->
  (i_tag = 0 /\ (forall v, rng b0 v -> rng i_e v) /\ closed_under a0 a1 (rng i_e)) \/
  (i_tag = 1 /\ forall v, rng b0 v -> rng a1 v -> False).
Proof.
  intros E H. unfold psolve_axis_check in H. rewrite E in H.
  destruct (sizes_consistent (fvn a0 ++ fvn a1) && sizes_consistent (fvn b0) && sizes_consistent (fvn i_e)) eqn:SC;
    [|discriminate]. cbn [negb] in H.
  apply andb_true_iff in SC. destruct SC as [SC Se]. apply andb_true_iff in SC. destruct SC as [Sa Sb].
  destruct r as [g ents i|e i|e i|er]; try discriminate.
  - left. destruct (Nat.eqb_spec i_tag 0) as [->|]; [|discriminate]. cbn [negb] in H.
    destruct (contains_b b0 i_e) eqn:C1; [|discriminate]. cbn [negb] in H.
    destruct (closed_b a0 a1 i_e) eqn:C2; [|discriminate].
    split; [reflexivity|]. split; [exact (contains_b_sound b0 i_e Sb Se C1)|exact (closed_b_sound a0 a1 i_e Sa Se C2)].
  - right. destruct (Nat.eqb_spec i_tag 1) as [->|]; [|discriminate]. cbn [negb] in H.
    destruct (disjoint_b a1 b0) eqn:D; [|discriminate].
    split; [reflexivity|]. intros v Hb Ha.
    assert (S1 : sizes_consistent (fvn a1) = true).
    { clear -Sa. induction (fvn a0) as [|[k n] l IH]; [exact Sa|]. simpl in Sa. apply andb_true_iff in Sa. tauto. }
    exact (disjoint_b_sound a1 b0 S1 Sb D v Hb Ha).
Qed.
