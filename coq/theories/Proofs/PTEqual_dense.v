(** [PatternedTensor(dense, default=d)] ([pt_of_dense]): well formed, of the given shape, and it
    denotes the dense tensor it was built from -- whatever default it is given.  Hence a tensor
    equals its densification (C13_equal_densify). *)
From Coq Require Import List Arith Lia PeanoNat Bool PArith QArith Qcanon.
Import ListNotations.
Require Import Fggs.Model.Axis Fggs.Model.AxisCheck Fggs.Model.XVal Fggs.Model.PTensor Fggs.Model.PTensorCheck Fggs.Model.PTEqual.
Require Import Fggs.Proofs.Axis_sem Fggs.Proofs.PTensor_sem Fggs.Proofs.PTensor_dense Fggs.Proofs.PTensor_gen.
Require Import Fggs.Proofs.PTEqual_sem Fggs.Proofs.PTEqual_main.
Local Open Scope nat_scope.

(** the environment that addresses the element at [idx] *)
Fixpoint dense_env (shp : list nat) (next : positive) (idx : list nat) : list pn :=
  match shp, idx with
  | n :: shp', i :: idx' =>
      if Nat.eqb n 1 then dense_env shp' next idx' else (next, i) :: dense_env shp' (Pos.succ next) idx'
  | _, _ => []
  end.

Lemma dense_axes_keys shp : forall next k n, In (k, n) (flat_map fvn (fst (dense_axes shp next))) -> (next <= k)%positive.
Proof.
  induction shp as [|m shp IH]; intros next k n H; [contradiction|]. simpl in H.
  destruct (Nat.eqb m 1).
  - destruct (dense_axes shp next) as [r nx] eqn:E. simpl in H. apply (IH next k n). rewrite E. exact H.
  - destruct (dense_axes shp (Pos.succ next)) as [r nx] eqn:E. simpl in H. destruct H as [H|H].
    + inversion H; subst. lia.
    + specialize (IH (Pos.succ next) k n). rewrite E in IH. specialize (IH H). lia.
Qed.

Lemma dense_axes_nodup shp : forall next, NoDup (map fst (flat_map fvn (fst (dense_axes shp next)))).
Proof.
  induction shp as [|m shp IH]; intros next; [constructor|]. simpl.
  destruct (Nat.eqb m 1).
  - specialize (IH next). destruct (dense_axes shp next) as [r nx]. simpl. exact IH.
  - pose proof (dense_axes_keys shp (Pos.succ next)) as K. specialize (IH (Pos.succ next)).
    destruct (dense_axes shp (Pos.succ next)) as [r nx]. simpl in *. constructor; [|exact IH].
    intros Hin. apply in_map_iff in Hin. destruct Hin as ([k n] & E & Hin). simpl in E. subst k.
    specialize (K _ _ Hin). lia.
Qed.

Lemma dense_axes_shape shp : forall next, map numel (fst (dense_axes shp next)) = shp.
Proof.
  induction shp as [|m shp IH]; intros next; [reflexivity|]. simpl.
  destruct (Nat.eqb_spec m 1) as [->|_].
  - specialize (IH next). destruct (dense_axes shp next) as [r nx]. simpl in *. rewrite IH. reflexivity.
  - specialize (IH (Pos.succ next)). destruct (dense_axes shp (Pos.succ next)) as [r nx]. simpl in *. rewrite IH. reflexivity.
Qed.

Lemma inrange_ext r1 r2 e : (forall k, In k (fv e) -> r1 k = r2 k) -> inrange r1 e -> inrange r2 e.
Proof.
  intros H R. apply inrange_fvn. intros k n Hk. rewrite <- H.
  - exact (proj2 (inrange_fvn r1 e) R k n Hk).
  - rewrite fv_fvn. apply in_map_iff. exists (k, n). auto.
Qed.

Lemma dense_env_spec shp : forall next idx, in_bounds shp idx ->
  let vs := fst (dense_axes shp next) in
  let rho := env_of (dense_env shp next idx) in
  Forall (inrange rho) vs /\ evals rho vs = idx /\ unsqueeze_idx shp (pcoords (flat_map fvn vs) rho) = idx.
Proof.
  induction shp as [|m shp IH]; intros next idx B; inversion B as [|i ? idx' ? Hi B']; subst.
  - simpl. repeat split. constructor.
  - cbn [dense_axes dense_env unsqueeze_idx]. destruct (Nat.eqb_spec m 1) as [->|Hm].
    + destruct (IH next idx' B') as (R & E & U). destruct (dense_axes shp next) as [r nx]. cbn [fst] in *.
      assert (i = 0) by lia. subst i. repeat split.
      * constructor; [simpl; exact I|exact R].
      * unfold evals in *. simpl. rewrite E. reflexivity.
      * simpl. f_equal. exact U.
    + pose proof (dense_axes_keys shp (Pos.succ next)) as K.
      destruct (IH (Pos.succ next) idx' B') as (R & E & U).
      destruct (dense_axes shp (Pos.succ next)) as [r nx]. cbn [fst] in *.
      set (rho' := env_of (dense_env shp (Pos.succ next) idx')) in *.
      set (rho := env_of ((next, i) :: dense_env shp (Pos.succ next) idx')).
      assert (A : forall k n, In (k, n) (flat_map fvn r) -> rho k = rho' k).
      { intros k n Hk. specialize (K _ _ Hk). unfold rho, rho', env_of. simpl.
        destruct (Pos.eqb_spec next k) as [->|_]; [lia|reflexivity]. }
      assert (A' : forall k, In k (flat_map fv r) -> rho k = rho' k).
      { intros k Hk. apply in_flat_map in Hk. destruct Hk as (e & He & Hk). rewrite fv_fvn in Hk. apply in_map_iff in Hk.
        destruct Hk as ([k' n] & <- & Hk). apply (A k' n). apply in_flat_map. eauto. }
      assert (Z : rho next = i) by (unfold rho, env_of; simpl; rewrite Pos.eqb_refl; reflexivity).
      repeat split.
      * constructor; [simpl; rewrite Z; exact Hi|].
        rewrite Forall_forall in *. intros e He. apply (inrange_ext rho' rho); [|apply R; exact He].
        intros k Hk. symmetry. apply A'. apply in_flat_map. eauto.
      * unfold evals in *. cbn [map eval]. rewrite Z. f_equal. rewrite <- E. apply map_ext_in. intros e He.
        apply eval_ext. intros k Hk. apply A'. apply in_flat_map. eauto.
      * cbn [flat_map fvn app pcoords map fst]. rewrite Z. destruct (Nat.eqb_spec m 1) as [->|_]; [contradiction|].
        f_equal. rewrite <- U. f_equal. apply pcoords_ext. intros k Hk. apply in_map_iff in Hk.
        destruct Hk as ([k' n] & <- & Hk). apply (A k' n). exact Hk.
Qed.

Section OfDense.
Variable V : Type.
Variables (shp : list nat) (f : list nat -> V) (d : V) (next : positive).
Let t := fst (pt_of_dense V shp f d next).

Lemma pt_of_dense_eq :
  t = mkPT (fun idx => f (unsqueeze_idx shp idx)) (flat_map fvn (fst (dense_axes shp next))) (fst (dense_axes shp next)) d.
Proof. unfold t, pt_of_dense. destruct (dense_axes shp next) as [vs nx]. reflexivity. Qed.

Lemma pt_of_dense_wf : wf V t.
Proof.
  rewrite pt_of_dense_eq. split; cbn [paxes vaxes]; [apply dense_axes_nodup|]. intros k n. tauto.
Qed.

Lemma pt_of_dense_shape : shape V t = shp.
Proof. rewrite pt_of_dense_eq. unfold shape. cbn [vaxes]. apply dense_axes_shape. Qed.

Theorem pt_of_dense_denote idx : in_bounds shp idx -> denote V t idx = f idx.
Proof.
  intros B. destruct (dense_env_spec shp next idx B) as (R & E & U).
  pose proof pt_of_dense_wf as W. revert W. rewrite pt_of_dense_eq. intros W.
  set (t0 := mkPT _ _ _ _) in *.
  rewrite <- E at 1. change (fst (dense_axes shp next)) with (vaxes t0).
  rewrite (denote_backed V t0 _ (wf_covers V t0 W) R). unfold pget. cbn [physical paxes t0]. rewrite U. reflexivity.
Qed.

End OfDense.

(** a tensor equals its densification, whatever default the dense copy is given *)
Corollary equal_densify next next2 d (t : pt) b : nan_free t ->
  let c := fst (pt_of_dense xval (shape xval t) (denote xval t) d next2) in
  compare_pre_b next t c = true -> equal_model next t c = Ok b -> b = true.
Proof.
  intros NF c P H. apply (equal_repr_insensitive next t c b NF); trivial.
  - symmetry. apply pt_of_dense_shape.
  - intros idx B. apply pt_of_dense_denote. exact B.
Qed.
