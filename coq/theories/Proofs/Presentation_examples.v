(** C12: a concrete grammar and a concrete presentation of it (every ingredient of the
    transform non-trivial), showing that the hypotheses of the C12 theorems are satisfiable,
    and a worked evaluation in the semiring of natural numbers. *)
From Coq Require Import List Arith Bool PeanoNat Lia Permutation.
Import ListNotations.
Require Import Fggs.Model.Semiring Fggs.Model.SCC Fggs.Model.SumProduct.
Require Import Fggs.Proofs.SCC_ntgraph Fggs.Proofs.BigSum Fggs.Proofs.SP_trees Fggs.Proofs.SP_nonrec
               Fggs.Proofs.SP_code Fggs.Proofs.SP_rename Fggs.Proofs.SP_spe Fggs.Proofs.SP_driver
               Fggs.Proofs.SP_main Fggs.Proofs.SP_corollaries Fggs.Proofs.SP_examples Fggs.Proofs.SP_scc_glue.
Require Import Fggs.Proofs.Presentation Fggs.Proofs.Presentation_perm Fggs.Proofs.Presentation_nodes
               Fggs.Proofs.Presentation_dom Fggs.Proofs.Presentation_relabel Fggs.Proofs.Presentation_wf
               Fggs.Proofs.Presentation_cor.

(** node labels: 0 (2 values), 1 (3 values).
    edge labels: 0 = terminal f : (0,1); 1 = terminal g : (1); 2 = nonterminal X : (0); 3 = start S : ().
    X(n0) -> f(n0,n1) g(n1)  |  X(n0) -> (no edge)  ;   S -> X(n0) *)
Definition pX1 : rule := {| r_lhs := 2; r_nodes := [0; 1]; r_edges := [(0, [0; 1]); (1, [1])]; r_ext := [0] |}.
Definition pX2 : rule := {| r_lhs := 2; r_nodes := [0]; r_edges := []; r_ext := [0] |}.
Definition pS : rule := {| r_lhs := 3; r_nodes := [0]; r_edges := [(2, [0])]; r_ext := [] |}.
Definition P_ex : grammar :=
  {| g_doms := [2; 3];
     g_labels := [(true, [0; 1]); (true, [1]); (false, [0]); (false, [])];
     g_rules := [pX1; pX2; pS];
     g_start := 3 |}.

(** the presentation: domain values permuted by [rho_ex]; edge labels renumbered by [pe_ex]
    (f->2, g->0, X->3, S->1), node labels swapped; nodes of the first rule swapped; its edges
    swapped; rules listed in another order *)
Definition rho_ex (nl : nat) : list nat := nth nl [[1; 0]; [2; 0; 1]] [].
Definition pe_ex : list nat := [2; 0; 3; 1].
Definition pn_ex : list nat := [1; 0].
Definition P2 : grammar := relabel_grammar pe_ex pn_ex P_ex.
Definition P3 : grammar :=
  {| g_doms := g_doms P2; g_labels := g_labels P2; g_start := g_start P2;
     g_rules := [permute_nodes [1; 0] (relabel_rule pe_ex pn_ex pX1);
                 permute_nodes [0] (relabel_rule pe_ex pn_ex pX2);
                 permute_nodes [0] (relabel_rule pe_ex pn_ex pS)] |}.
Definition qX1 : rule := {| r_lhs := 3; r_nodes := [0; 1]; r_edges := [(0, [0]); (2, [1; 0])]; r_ext := [1] |}.
Definition qX2 : rule := {| r_lhs := 3; r_nodes := [1]; r_edges := []; r_ext := [0] |}.
Definition qS : rule := {| r_lhs := 1; r_nodes := [1]; r_edges := [(3, [0])]; r_ext := [] |}.
Definition P4 : grammar :=
  {| g_doms := g_doms P2; g_labels := g_labels P2; g_start := g_start P2; g_rules := [qX1; qX2; qS] |}.
Definition P_ex' : grammar :=
  {| g_doms := [3; 2];
     g_labels := [(true, [0]); (false, []); (true, [1; 0]); (false, [1])];
     g_rules := [qS; qX1; qX2];
     g_start := 1 |}.

Example P_ex_wf : wf_grammar P_ex = true /\ wf_grammar P_ex' = true.
Proof. split; reflexivity. Qed.
Example rho_ex_ok : dom_perms P_ex rho_ex.
Proof.
  intros nl Hnl. cbn in Hnl. destruct nl as [|[|nl]]; [| |lia]; (split; [apply is_permb_sound|]; reflexivity).
Qed.
Example P2_relabelled : relabelled (pfun pe_ex) (pfun pn_ex) P_ex P2.
Proof. apply relabel_grammar_rel; try reflexivity; apply is_permb_sound; reflexivity. Qed.
Example P3_nodes : rules_nodes_perm (g_rules P2) (g_rules P3).
Proof.
  repeat constructor; eexists; apply permute_nodes_rel; try reflexivity; apply is_permb_sound; reflexivity.
Qed.
Example P4_edges : Forall2 rule_edges_perm (g_rules P3) (g_rules P4).
Proof.
  repeat constructor.
Qed.
Example P5_rules : Permutation (g_rules P4) (g_rules P_ex').
Proof. cbn. apply Permutation_sym. apply (Permutation_cons_app [qX1; qX2] []). apply Permutation_refl. Qed.

Example P_ex_presents : presents rho_ex (pfun pe_ex) (pfun pn_ex) P_ex P_ex'.
Proof.
  split; [exact rho_ex_ok|]. exists P2, P3, P4.
  split; [exact P2_relabelled|]. split; [split; reflexivity|]. split; [exact P3_nodes|].
  split; [split; reflexivity|]. split; [exact P4_edges|]. split; [split; reflexivity|exact P5_rules].
Qed.

(** weights over the natural numbers, and the presentation's weights (axes permuted, looked up
    under the old label) *)
Definition w_ex : env (R:=nat) :=
  fun l idx => match l with 0 => 1 + nth 0 idx 0 + 2 * nth 1 idx 0 | 1 => 1 + 3 * nth 0 idx 0 | _ => 0 end.
Definition w_ex' : env (R:=nat) :=
  relabel_weights pe_ex (permute_weights P_ex rho_ex w_ex).

Example w_ex_related : forall l idx, vlab P_ex l -> vidx P_ex l idx -> is_term P_ex l = true ->
  w_ex' (pfun pe_ex l) (pmap rho_ex (ltype P_ex l) idx) = w_ex l idx.
Proof.
  intros l idx _ Hidx _. unfold w_ex', relabel_weights, permute_weights.
  rewrite (pfun_pinv_l pe_ex l (is_permb_sound pe_ex eq_refl)). f_equal. apply pmap_inv.
  - intros nl Hin. apply rho_ex_ok. now apply (wf_grammar_ltype P_ex l).
  - apply all_assts_length in Hidx. unfold lshape in Hidx. now rewrite map_length in Hidx.
Qed.

(** the theorem at work: X at x = 0 is X' = label 3 at rho_0(0) = 1; S is label 1 *)
Example P_ex_values :
  Zk nat_ops_example P_ex w_ex 3 2 [0] = 49 /\ Zk nat_ops_example P_ex' w_ex' 3 3 [1] = 49
  /\ Zk nat_ops_example P_ex w_ex 3 2 [1] = 61 /\ Zk nat_ops_example P_ex' w_ex' 3 3 [0] = 61
  /\ Zk nat_ops_example P_ex w_ex 3 3 [] = 110 /\ Zk nat_ops_example P_ex' w_ex' 3 1 [] = 110.
Proof. vm_compute. repeat split. Qed.

Example P_ex_ranked : ranked P_ex (fun X => match X with 3 => 1 | _ => 0 end)
                      /\ ranked P_ex' (fun X => match X with 1 => 1 | _ => 0 end).
Proof.
  split.
  - intros r [<-|[<-|[<-|[]]]] _ ed Hed Ht; cbn in Hed; repeat (destruct Hed as [<-|Hed]); try destruct Hed;
      cbn in Ht; try discriminate; cbn; lia.
  - intros r [<-|[<-|[<-|[]]]] _ ed Hed Ht; cbn in Hed; repeat (destruct Hed as [<-|Hed]); try destruct Hed;
      cbn in Ht; try discriminate; cbn; lia.
Qed.

(** two dependency-respecting orders of [G_ex] (Proofs/SP_examples.v), both accepted by the SCC oracle *)
Example two_orders :
  scc_ok (nt_graph G_ex) [[1]; [2]; [3]] = true /\ nonrecursive_order G_ex [[1]; [2]; [3]] = true
  /\ scc_ok (nt_graph G_ex) [[3]; [1]; [2]] = true /\ nonrecursive_order G_ex [[3]; [1]; [2]] = true.
Proof. repeat split; reflexivity. Qed.
Example P_ex_orders : dep_ordered P_ex [] [2; 3] /\ dep_ordered P_ex' [] [3; 1].
Proof.
  split; cbn [dep_ordered]; repeat split; try reflexivity.
  - intros r ed Hr Hed Ht. cbn in Hr. repeat (destruct Hr as [<-|Hr]); try destruct Hr;
      cbn in Hed; repeat (destruct Hed as [<-|Hed]); try destruct Hed; cbn in Ht; discriminate.
  - intros r ed Hr Hed Ht. cbn in Hr. repeat (destruct Hr as [<-|Hr]); try destruct Hr;
      cbn in Hed; repeat (destruct Hed as [<-|Hed]); try destruct Hed. cbn. now left.
  - intros r ed Hr Hed Ht. cbn in Hr. repeat (destruct Hr as [<-|Hr]); try destruct Hr;
      cbn in Hed; repeat (destruct Hed as [<-|Hed]); try destruct Hed; cbn in Ht; discriminate.
  - intros r ed Hr Hed Ht. cbn in Hr. repeat (destruct Hr as [<-|Hr]); try destruct Hr;
      cbn in Hed; repeat (destruct Hed as [<-|Hed]); try destruct Hed. cbn. now left.
Qed.
