(** Facts about [sort_edges] (the model of [sorted(edges, key=id)]): it is a stable insertion
    sort, a permutation, sorted; two id-duplicate-free edge lists with the same set of
    (id, attachment ids) signatures are aligned position by position after sorting. *)
From Coq Require Import List Arith Bool PeanoNat Lia Permutation Sorted.
Import ListNotations.
Require Import Fggs.Model.Conj Fggs.Proofs.ConjBase.

(** * the order on ids: implicit (even) before explicit (odd), numeric within a kind *)
Lemma id_leb_refl : forall a, id_leb a a = true.
Proof. intros a. unfold id_leb. destruct (Nat.even a); apply Nat.leb_refl. Qed.

Lemma id_leb_trans : forall a b c, id_leb a b = true -> id_leb b c = true -> id_leb a c = true.
Proof.
  intros a b c. unfold id_leb.
  destruct (Nat.even a), (Nat.even b), (Nat.even c); try discriminate; try reflexivity;
    rewrite !Nat.leb_le; lia.
Qed.

Lemma id_leb_antisym : forall a b, id_leb a b = true -> id_leb b a = true -> a = b.
Proof.
  intros a b. unfold id_leb.
  destruct (Nat.even a), (Nat.even b); try discriminate; rewrite !Nat.leb_le; lia.
Qed.

Lemma id_leb_total : forall a b, id_leb a b = false -> id_leb b a = true.
Proof.
  intros a b. unfold id_leb.
  destruct (Nat.even a), (Nat.even b); try discriminate; try reflexivity;
    rewrite Nat.leb_le, Nat.leb_gt; lia.
Qed.

Definition le_id (a b : edge) : Prop := id_leb (e_id a) (e_id b) = true.

Lemma insert_edge_perm : forall x l, Permutation (insert_edge x l) (x :: l).
Proof.
  induction l as [|y l IH]; simpl; [reflexivity|].
  destruct (id_leb (e_id x) (e_id y)); [reflexivity|].
  apply Permutation_trans with (y :: x :: l); [apply perm_skip; exact IH | apply perm_swap].
Qed.

Lemma sort_edges_perm : forall l, Permutation (sort_edges l) l.
Proof.
  induction l as [|x l IH]; simpl; [constructor|].
  eapply Permutation_trans; [apply insert_edge_perm|]. apply perm_skip. exact IH.
Qed.

Lemma sort_edges_in : forall l x, In x (sort_edges l) <-> In x l.
Proof.
  intros; split; apply Permutation_in; [|apply Permutation_sym]; apply sort_edges_perm.
Qed.

Lemma sort_edges_length : forall l, length (sort_edges l) = length l.
Proof. intros. apply Permutation_length. apply sort_edges_perm. Qed.

Lemma insert_edge_sorted : forall x l, StronglySorted le_id l -> StronglySorted le_id (insert_edge x l).
Proof.
  induction l as [|y l IH]; simpl; intros H.
  - constructor; constructor.
  - inversion H as [|? ? H1 H2]; subst. destruct (id_leb (e_id x) (e_id y)) eqn:E.
    + constructor; [exact H|]. constructor; [exact E|].
      eapply Forall_impl; [|exact H2]. intros a Ha. unfold le_id in *. eapply id_leb_trans; eauto.
    + apply id_leb_total in E. constructor; [apply IH; exact H1|].
      apply Forall_forall. intros a Ha.
      apply (Permutation_in _ (insert_edge_perm x l)) in Ha. destruct Ha as [<-|Ha].
      * exact E.
      * rewrite Forall_forall in H2. apply H2. exact Ha.
Qed.

Lemma sort_edges_sorted : forall l, StronglySorted le_id (sort_edges l).
Proof.
  induction l as [|x l IH]; simpl; [constructor|]. apply insert_edge_sorted. exact IH.
Qed.

Lemma insert_edge_sorted_cons : forall x l, Forall (le_id x) l -> insert_edge x l = x :: l.
Proof.
  destruct l as [|y l]; simpl; intros H; [reflexivity|].
  inversion H as [|? ? H1 H2]; subst. unfold le_id in H1. rewrite H1. reflexivity.
Qed.

(** sorting a sorted list changes nothing *)
Lemma sort_edges_sorted_id : forall l, StronglySorted le_id l -> sort_edges l = l.
Proof.
  induction l as [|x l IH]; simpl; intros H; [reflexivity|].
  inversion H as [|? ? H1 H2]; subst. rewrite IH by assumption.
  apply insert_edge_sorted_cons. assumption.
Qed.

(** two strictly sorted lists with the same elements are equal *)
Definition slt {B} (key : B -> nat) (a b : B) : Prop := id_leb (key a) (key b) = true /\ key a <> key b.

Lemma sorted_same_set_eq {B} (key : B -> nat) : forall l1 l2 : list B,
  StronglySorted (slt key) l1 -> StronglySorted (slt key) l2 ->
  (forall x, In x l1 <-> In x l2) -> l1 = l2.
Proof.
  induction l1 as [|a l1 IH]; intros [|b l2] S1 S2 H.
  - reflexivity.
  - destruct (proj2 (H b) (or_introl eq_refl)).
  - destruct (proj1 (H a) (or_introl eq_refl)).
  - inversion S1 as [|? ? S1' F1]; subst. inversion S2 as [|? ? S2' F2]; subst.
    rewrite Forall_forall in F1, F2.
    assert (E : a = b).
    { destruct (proj1 (H a) (or_introl eq_refl)) as [E|Ha]; [auto|].
      destruct (proj2 (H b) (or_introl eq_refl)) as [E|Hb]; [auto|].
      destruct (F2 _ Ha) as [L2 N2]. destruct (F1 _ Hb) as [L1 N1].
      exfalso. apply N1. apply id_leb_antisym; assumption. }
    subst b. f_equal. apply IH; auto. intros x. split; intros Hx.
    + destruct (proj1 (H x) (or_intror Hx)) as [E|Hx']; [|exact Hx'].
      subst x. destruct (F1 _ Hx) as [_ N]. congruence.
    + destruct (proj2 (H x) (or_intror Hx)) as [E|Hx']; [|exact Hx'].
      subst x. destruct (F2 _ Hx) as [_ N]. congruence.
Qed.

(** the signature [(edge.id, tuple(node ids))] compared by [conjoinable] *)
Definition sigf (e : edge) : nat * list nat := (e_id e, map n_id (e_att e)).

Lemma nt_sig_sigf : forall g, nt_sig g = map sigf (nt_edges g).
Proof. reflexivity. Qed.

Lemma sorted_strict : forall l,
  StronglySorted le_id l -> NoDup (map e_id l) ->
  StronglySorted (slt (@fst nat (list nat))) (map sigf l).
Proof.
  induction l as [|a l IH]; simpl; intros S N; [constructor|].
  inversion S as [|? ? S' F]; subst. inversion N as [|? ? N1 N2]; subst.
  constructor; [apply IH; auto|].
  apply Forall_forall. intros x Hx. apply in_map_iff in Hx. destruct Hx as [e [<- He]].
  rewrite Forall_forall in F. specialize (F e He). split; [exact F|]. simpl.
  intros E. apply N1. rewrite E. apply in_map. exact He.
Qed.

Lemma sort_edges_nodup : forall l, NoDup (map e_id l) -> NoDup (map e_id (sort_edges l)).
Proof.
  intros l H. eapply Permutation_NoDup; [|exact H].
  apply Permutation_map. apply Permutation_sym. apply sort_edges_perm.
Qed.

(** alignment of the id-sorted nonterminal edges of two conjoinable rules *)
Lemma sorted_sigs_eq : forall l1 l2,
  NoDup (map e_id l1) -> NoDup (map e_id l2) ->
  (forall s, In s (map sigf l1) <-> In s (map sigf l2)) ->
  map sigf (sort_edges l1) = map sigf (sort_edges l2).
Proof.
  intros l1 l2 N1 N2 H. apply (sorted_same_set_eq fst).
  - apply sorted_strict; [apply sort_edges_sorted | apply sort_edges_nodup; exact N1].
  - apply sorted_strict; [apply sort_edges_sorted | apply sort_edges_nodup; exact N2].
  - intros s. rewrite !in_map_iff. split; intros [e [E He]].
    + apply (proj1 (sort_edges_in _ _)) in He.
      assert (X : In s (map sigf l1)) by (apply in_map_iff; exists e; split; assumption).
      apply (proj1 (H s)) in X. apply in_map_iff in X. destruct X as [e' [E' He']].
      exists e'. split; [exact E' | apply (proj2 (sort_edges_in _ _)); exact He'].
    + apply (proj1 (sort_edges_in _ _)) in He.
      assert (X : In s (map sigf l2)) by (apply in_map_iff; exists e; split; assumption).
      apply (proj2 (H s)) in X. apply in_map_iff in X. destruct X as [e' [E' He']].
      exists e'. split; [exact E' | apply (proj2 (sort_edges_in _ _)); exact He'].
Qed.

(** consequences of aligned signatures for [combine] *)
Lemma combine_aligned_sig : forall s1 s2 a b,
  map sigf s1 = map sigf s2 -> In (a, b) (combine s1 s2) -> sigf a = sigf b.
Proof.
  induction s1 as [|x s1 IH]; intros [|y s2] a b E H; simpl in *; try contradiction.
  injection E as E1 E2 E3. destruct H as [H|H].
  - injection H as <- <-. unfold sigf. congruence.
  - apply (IH s2); assumption.
Qed.

Lemma combine_aligned_in : forall s1 s2 a b,
  map sigf s1 = map sigf s2 -> NoDup (map e_id s2) ->
  In a s1 -> In b s2 -> e_id a = e_id b -> In (a, b) (combine s1 s2).
Proof.
  induction s1 as [|x s1 IH]; intros [|y s2] a b E N Ha Hb Eid; simpl in *; try contradiction.
  injection E as Exy _ E2. inversion N as [|? ? N1 N2]; subst.
  destruct Ha as [->|Ha].
  - destruct Hb as [->|Hb]; [left; reflexivity|].
    exfalso. apply N1. rewrite <- Exy, Eid. apply in_map. exact Hb.
  - destruct Hb as [->|Hb].
    + exfalso. apply N1. rewrite <- Eid.
      assert (X : In (sigf a) (map sigf s1)) by (apply in_map; exact Ha).
      rewrite E2 in X. apply in_map_iff in X. destruct X as [c [Ec Hc]].
      replace (e_id a) with (e_id c); [apply in_map; exact Hc|].
      unfold sigf in Ec. injection Ec; auto.
    + right. apply (IH s2); assumption.
Qed.

Lemma Forall2_in_l {A B} (P : A -> B -> Prop) : forall l1 l2 x,
  Forall2 P l1 l2 -> In x l1 -> exists y, In y l2 /\ P x y.
Proof.
  induction 1 as [|a b l1 l2 Hab H IH]; simpl; intros Hx; [contradiction|].
  destruct Hx as [<-|Hx]; [eauto|]. destruct (IH Hx) as [y [Hy Py]]. eauto.
Qed.

Lemma Forall2_in_r {A B} (P : A -> B -> Prop) : forall l1 l2 y,
  Forall2 P l1 l2 -> In y l2 -> exists x, In x l1 /\ P x y.
Proof.
  induction 1 as [|a b l1 l2 Hab H IH]; simpl; intros Hy; [contradiction|].
  destruct Hy as [<-|Hy]; [eauto|]. destruct (IH Hy) as [x [Hx Px]]. eauto.
Qed.
