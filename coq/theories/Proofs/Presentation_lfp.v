(** C12 for RECURSIVE grammars: the least fixed point of the grammar's equations (and every
    certified enclosure of it) is invariant under re-presentation.
    [Zk_presentation] (Proofs/Presentation_cor.v) relates the Kleene iterates; here the same
    simulation is proved for ONE application of the equations at ARBITRARY related environments
    ([step_presentation]), from which: fixed points, pre-fixed points, least fixed points and
    enclosures [lo, hi] of G correspond to those of every presentation G' of G, the tables being
    re-indexed by the presentation ([pel] on labels, [pmap rho] on index tuples). *)
From Coq Require Import List Arith Bool PeanoNat Lia Permutation.
Import ListNotations.
Require Import Fggs.Model.Semiring Fggs.Model.SCC Fggs.Model.SumProduct Fggs.Model.Kleene.
Require Import Fggs.Proofs.SCC_ntgraph Fggs.Proofs.BigSum Fggs.Proofs.SP_trees Fggs.Proofs.SP_nonrec
               Fggs.Proofs.SP_code Fggs.Proofs.SP_rename Fggs.Proofs.SP_spe Fggs.Proofs.SP_driver
               Fggs.Proofs.SP_mono Fggs.Proofs.Kleene_proofs Fggs.Proofs.Kleene_linear Fggs.Proofs.Kleene_scc Fggs.Proofs.Kleene_fixpoint.
Require Import Fggs.Proofs.Presentation Fggs.Proofs.Presentation_perm Fggs.Proofs.Presentation_nodes
               Fggs.Proofs.Presentation_dom Fggs.Proofs.Presentation_relabel Fggs.Proofs.Presentation_wf
               Fggs.Proofs.Presentation_cor Fggs.Proofs.Presentation_examples.

(** * one application of the equations: the generic simulation *)
Section StepSim.
Context {R : Type} (o : sr_ops R) (Hring : sr_ring o).
Variables (G G' : grammar) (pi : nat -> nat) (tau : nat -> list nat -> list nat).
Variables (VL : nat -> Prop) (VI : nat -> list nat -> Prop).

Theorem step_sim (w w' x x' : env (R:=R)) :
  (forall X, VL X -> is_term G' (pi X) = is_term G X) ->
  (forall X Y, VL X -> VL Y -> pi X = pi Y -> X = Y) ->
  (forall X xi, VL X -> VI X xi -> is_term G X = true -> w' (pi X) (tau X xi) = w X xi) ->
  Forall2 (rule_sim o G G' pi tau VL VI) (g_rules G) (g_rules G') ->
  (forall X xi, VL X -> VI X xi -> is_term G X = false -> x' (pi X) (tau X xi) = x X xi) ->
  forall X xi, VL X -> VI X xi -> step o G' w' x' (pi X) (tau X xi) = step o G w x X xi.
Proof.
  intros Hterm Hinj Hw HF Hx X xi HX Hxi. unfold step. rewrite (Hterm X HX).
  destruct (is_term G X) eqn:Ht; [now apply Hw|].
  unfold rules_of. apply (sumS_rules_sim o G G' pi tau VL VI); trivial.
  intros l idx Hl Hidx. rewrite (Hterm l Hl). destruct (is_term G l) eqn:Htl; [now apply Hw|now apply Hx].
Qed.
End StepSim.

Section Steps.
Context {R : Type} (o : sr_ops R) (Hring : sr_ring o).

Lemma step_rules_perm G G' (w x : env (R:=R)) X xi :
  g_doms G = g_doms G' -> g_labels G = g_labels G' -> Permutation (g_rules G) (g_rules G') ->
  step o G w x X xi = step o G' w x X xi.
Proof.
  intros Hd Hl Hp.
  assert (Ht : forall l, is_term G l = is_term G' l) by (intros l; unfold is_term; now rewrite Hl).
  unfold step. rewrite Ht. destruct (is_term G' X); [reflexivity|].
  rewrite (sumS_perm o Hring (rules_of G X) (rules_of G' X)).
  2:{ unfold rules_of. apply filter_perm. exact Hp. }
  apply sumS_ext. intros r _. apply rule_val_doms; [exact Hd|].
  intros l idx. now rewrite Ht.
Qed.

Lemma step_edges_perm G G' (w x : env (R:=R)) X xi :
  g_doms G = g_doms G' -> g_labels G = g_labels G' ->
  Forall2 rule_edges_perm (g_rules G) (g_rules G') ->
  step o G w x X xi = step o G' w x X xi.
Proof.
  intros Hd Hl HF. symmetry.
  apply (step_sim o G G' (fun l => l) (fun _ idx => idx) (fun _ => True) (fun _ _ => True)); trivial.
  - intros l _. unfold is_term. now rewrite Hl.
  - eapply Forall2_mono; [|exact HF]. intros r r' Hrr. split; [exact I|]. split; [symmetry; apply Hrr|].
    intros e e' xi' He _. symmetry. apply (rule_val_edges_perm o Hring); trivial.
    intros l idx. symmetry. now apply He.
Qed.

Lemma step_nodes_perm G G' (w x : env (R:=R)) X xi :
  g_doms G = g_doms G' -> g_labels G = g_labels G' ->
  Forall2 (fun r r' => exists p, rule_nodes_perm p r r') (g_rules G) (g_rules G') ->
  step o G' w x X xi = step o G w x X xi.
Proof.
  intros Hd Hl HF.
  apply (step_sim o G G' (fun l => l) (fun _ idx => idx) (fun _ => True) (fun _ _ => True)); trivial.
  - intros l _. unfold is_term. now rewrite Hl.
  - eapply Forall2_mono; [|exact HF]. intros r r' (p & Hp). split; [exact I|].
    split; [apply Hp|]. intros e e' xi' He _. apply (rule_val_nodes_perm o Hring G G' e e' p); trivial.
    intros l idx. symmetry. now apply He.
Qed.

Lemma step_relabel pel pnl G G' (w w' x x' : env (R:=R)) :
  wf_grammar G = true -> relabelled pel pnl G G' ->
  (forall l idx, l < length (g_labels G) -> is_term G l = true -> w' (pel l) idx = w l idx) ->
  (forall l idx, l < length (g_labels G) -> is_term G l = false -> x' (pel l) idx = x l idx) ->
  forall X xi, X < length (g_labels G) -> step o G' w' x' (pel X) xi = step o G w x X xi.
Proof.
  intros Hwf Hrel Hw Hx X xi HX.
  apply (step_sim o G G' pel (fun _ idx => idx) (vlab G) (fun _ _ => True)); trivial.
  - apply (rl_term _ _ _ _ Hrel).
  - apply (rl_inj _ _ _ _ Hrel).
  - intros l idx Hl _. now apply Hw.
  - eapply Forall2_mono_In; [|exact (rl_rules _ _ _ _ Hrel)]. intros r r' Hr _ Hrr.
    pose proof (wf_grammar_rules G Hwf r Hr) as Hwr.
    split; [apply (wf_rule_types G r Hwr)|]. split; [apply Hrr|].
    intros e e' xi' He _. apply (rule_val_relabel o pel pnl); trivial; [apply (rl_dom _ _ _ _ Hrel)|].
    intros l idx Hl. now apply He.
  - intros l idx Hl _. now apply Hx.
Qed.

Lemma step_dom_perm G rho (w w' x x' : env (R:=R)) :
  wf_grammar G = true -> dom_perms G rho ->
  (forall l idx, vlab G l -> vidx G l idx -> is_term G l = true -> w' l (pmap rho (ltype G l) idx) = w l idx) ->
  (forall l idx, vlab G l -> vidx G l idx -> is_term G l = false -> x' l (pmap rho (ltype G l) idx) = x l idx) ->
  forall X xi, vlab G X -> vidx G X xi ->
    step o G w' x' X (pmap rho (ltype G X) xi) = step o G w x X xi.
Proof.
  intros Hwf Hrho Hw Hx.
  apply (step_sim o G G (fun l => l) (fun l idx => pmap rho (ltype G l) idx) (vlab G) (vidx G)); trivial.
  apply Forall2_diag. intros r Hr. pose proof (wf_grammar_rules G Hwf r Hr) as Hwr.
  split; [apply (wf_rule_types G r Hwr)|]. split; [reflexivity|].
  intros e e' xi He Hxi. now apply (rule_val_dom_perm o Hring).
Qed.

(** [x'] is [x] re-indexed by the presentation, on the nonterminals of [G] *)
Definition env_pres (rho : nat -> list nat) (pel : nat -> nat) (G : grammar) (x x' : env (R:=R)) : Prop :=
  forall l idx, vlab G l -> vidx G l idx -> is_term G l = false ->
                x' (pel l) (pmap rho (ltype G l) idx) = x l idx.
(** ... same for the terminals' weights *)
Definition weights_pres (rho : nat -> list nat) (pel : nat -> nat) (G : grammar) (w w' : env (R:=R)) : Prop :=
  forall l idx, vlab G l -> vidx G l idx -> is_term G l = true ->
                w' (pel l) (pmap rho (ltype G l) idx) = w l idx.

(** the equations of a presentation, applied to a re-indexed environment, give the re-indexed result *)
Theorem step_presentation rho pel pnl G G' (w w' x x' : env (R:=R)) :
  wf_grammar G = true -> presents rho pel pnl G G' ->
  weights_pres rho pel G w w' -> env_pres rho pel G x x' ->
  forall X xi, vlab G X -> vidx G X xi ->
    step o G' w' x' (pel X) (pmap rho (ltype G X) xi) = step o G w x X xi.
Proof.
  intros Hwf (Hrho & G2 & G3 & G4 & Hrel & [Hd23 Hl23] & Hn & [Hd34 Hl34] & He & [Hd45 Hl45] & Hp) Hw Hx X xi HX Hxi.
  rewrite <- (step_rules_perm G4 G' w' x' _ _ Hd45 Hl45 Hp).
  rewrite <- (step_edges_perm G3 G4 w' x' _ _ Hd34 Hl34 He).
  rewrite (step_nodes_perm G2 G3 w' x' _ _ Hd23 Hl23 Hn).
  rewrite (step_relabel pel pnl G G2 (fun l idx => w' (pel l) idx) w' (fun l idx => x' (pel l) idx) x' Hwf Hrel) by trivial.
  apply (step_dom_perm G rho w _ x _); trivial.
Qed.

(** * cells of the presentation are images of cells of the grammar *)
Lemma presents_cell_preimage rho pel pnl G G' X xi' :
  wf_grammar G = true -> presents rho pel pnl G G' -> vlab G X ->
  In xi' (all_assts (lshape G' (pel X))) ->
  exists xi, vidx G X xi /\ pmap rho (ltype G X) xi = xi'.
Proof.
  intros Hwf Hp HX Hxi'. rewrite (presents_lshape rho pel pnl G G' X Hwf Hp HX) in Hxi'.
  assert (Hty : forall nl, In nl (ltype G X) -> nl < length (g_doms G)).
  { intros nl Hin. now apply (wf_grammar_ltype G X). }
  exists (pmap (rho_inv rho) (ltype G X) xi'). split.
  - unfold vidx, lshape. apply pmap_all_assts; [|exact Hxi'].
    intros nl Hin. apply (dom_perms_inv G rho (proj1 Hp)). now apply Hty.
  - apply pmap_inv_r.
    + intros nl Hin. apply (proj1 Hp). now apply Hty.
    + apply all_assts_length in Hxi'. unfold lshape in Hxi'. now rewrite map_length in Hxi'.
Qed.

(** the inverse re-indexing: a table of [G] pushed to the labels of the presentation (zero outside
    the image of [pel]) *)
Definition push_env (rho : nat -> list nat) (pel : nat -> nat) (G : grammar) (x : env (R:=R)) : env (R:=R) :=
  fun l' idx' =>
    match find (fun l => Nat.eqb (pel l) l') (seq 0 (length (g_labels G))) with
    | Some l => x l (pmap (rho_inv rho) (ltype G l) idx')
    | None => zero o
    end.
(** ... and a table of the presentation pulled back *)
Definition pull_env (rho : nat -> list nat) (pel : nat -> nat) (G : grammar) (x' : env (R:=R)) : env (R:=R) :=
  fun l idx => x' (pel l) (pmap rho (ltype G l) idx).

Lemma pull_env_pres rho pel G x' : env_pres rho pel G (pull_env rho pel G x') x'.
Proof. intros l idx _ _ _. reflexivity. Qed.

Lemma push_env_pres rho pel pnl G G' x :
  wf_grammar G = true -> presents rho pel pnl G G' -> env_pres rho pel G x (push_env rho pel G x).
Proof.
  intros Hwf Hp l idx Hl Hidx _. unfold push_env.
  destruct Hp as (Hrho & G2 & _ & _ & Hrel & _).
  destruct (find _ _) as [l0|] eqn:E.
  - apply find_some in E. destruct E as [Hin E]. apply in_seq in Hin. apply Nat.eqb_eq in E.
    assert (l0 = l) by (apply (rl_inj _ _ _ _ Hrel); trivial; lia). subst l0.
    f_equal. apply pmap_inv.
    + intros nl Hin'. apply Hrho. now apply (wf_grammar_ltype G l).
    + apply all_assts_length in Hidx. unfold lshape in Hidx. now rewrite map_length in Hidx.
  - pose proof (find_none _ _ E l) as H. cbn beta in H. rewrite Nat.eqb_refl in H.
    discriminate H. apply in_seq. unfold vlab in Hl. lia.
Qed.

(** * fixed points, pre-fixed points, least fixed points *)
(** [pres_labels pel G] = the nonterminals of the presentation that present nonterminals of [G]
    (= all its nonterminals when [pel] is onto them: [pres_labels_all]) *)
Definition pres_labels (pel : nat -> nat) (G : grammar) : list nat := map pel (nonterminals G).

Section Transfer.
Variables (rho : nat -> list nat) (pel pnl : nat -> nat) (G G' : grammar) (w w' : env (R:=R)).
Hypothesis Hwf : wf_grammar G = true.
Hypothesis Hp : presents rho pel pnl G G'.
Hypothesis Hw : weights_pres rho pel G w w'.

Lemma pres_cell X' xi' :
  In X' (pres_labels pel G) -> In xi' (all_assts (lshape G' X')) ->
  exists X xi, X' = pel X /\ xi' = pmap rho (ltype G X) xi /\ In X (nonterminals G)
               /\ vlab G X /\ vidx G X xi /\ is_term G X = false.
Proof.
  intros HX' Hxi'. apply in_map_iff in HX'. destruct HX' as (X & <- & HX).
  pose proof (proj1 (in_nonterminals G X) HX) as [HX1 HX2].
  destruct (presents_cell_preimage rho pel pnl G G' X xi' Hwf Hp HX1 Hxi') as (xi & H1 & H2).
  exists X, xi. repeat split; auto.
Qed.

Lemma pres_cell_in X xi :
  In X (nonterminals G) -> In xi (all_assts (lshape G X)) ->
  In (pel X) (pres_labels pel G) /\ In (pmap rho (ltype G X) xi) (all_assts (lshape G' (pel X)))
  /\ vlab G X /\ vidx G X xi /\ is_term G X = false.
Proof.
  intros HX Hxi. pose proof (proj1 (in_nonterminals G X) HX) as [HX1 HX2].
  split; [now apply in_map|]. split; [now apply (presents_vidx rho pel pnl)|]. auto.
Qed.

(** pre-fixed points are carried in both directions *)
Lemma prefixed_pres x x' :
  env_pres rho pel G x x' ->
  (le_on_set o G (nonterminals G) (step o G w x) x
   <-> le_on_set o G' (pres_labels pel G) (step o G' w' x') x').
Proof.
  intros Hx. split.
  - intros H X' xi' HX' Hxi'. destruct (pres_cell X' xi' HX' Hxi') as (X & xi & -> & -> & HX & HX1 & Hxi & Ht).
    rewrite (step_presentation rho pel pnl G G' w w' x x') by trivial. rewrite Hx by trivial. now apply H.
  - intros H X xi HX Hxi. destruct (pres_cell_in X xi HX Hxi) as (H1 & H2 & HX1 & Hxi1 & Ht).
    rewrite <- (step_presentation rho pel pnl G G' w w' x x') by trivial. rewrite <- (Hx X xi) by trivial.
    now apply H.
Qed.

Lemma fixed_pres x x' :
  env_pres rho pel G x x' ->
  (eq_on_set G (nonterminals G) (step o G w x) x
   <-> eq_on_set G' (pres_labels pel G) (step o G' w' x') x').
Proof.
  intros Hx. split.
  - intros H X' xi' HX' Hxi'. destruct (pres_cell X' xi' HX' Hxi') as (X & xi & -> & -> & HX & HX1 & Hxi & Ht).
    rewrite (step_presentation rho pel pnl G G' w w' x x') by trivial. rewrite Hx by trivial. now apply H.
  - intros H X xi HX Hxi. destruct (pres_cell_in X xi HX Hxi) as (H1 & H2 & HX1 & Hxi1 & Ht).
    rewrite <- (step_presentation rho pel pnl G G' w w' x x') by trivial. rewrite <- (Hx X xi) by trivial.
    now apply H.
Qed.

Lemma le_pres x x' y y' :
  env_pres rho pel G x x' -> env_pres rho pel G y y' ->
  (le_on_set o G (nonterminals G) x y <-> le_on_set o G' (pres_labels pel G) x' y').
Proof.
  intros Hx Hy. split.
  - intros H X' xi' HX' Hxi'. destruct (pres_cell X' xi' HX' Hxi') as (X & xi & -> & -> & HX & HX1 & Hxi & Ht).
    rewrite Hx, Hy by trivial. now apply H.
  - intros H X xi HX Hxi. destruct (pres_cell_in X xi HX Hxi) as (H1 & H2 & HX1 & Hxi1 & Ht).
    rewrite <- (Hx X xi), <- (Hy X xi) by trivial. now apply H.
Qed.

(** THE theorem: [mu] is the least fixed point of the equations of [G] iff its re-indexing is
    the least fixed point of the equations of the presentation *)
Theorem lfp_presentation mu mu' :
  env_pres rho pel G mu mu' ->
  (is_lfp_on o G (nonterminals G) (step o G w) mu
   <-> is_lfp_on o G' (pres_labels pel G) (step o G' w') mu').
Proof.
  intros Hmu. split; intros [Hfix Hleast]; split.
  - now apply (fixed_pres mu mu').
  - intros v' Hv'. apply (le_pres mu mu' (pull_env rho pel G v') v'); trivial; [apply pull_env_pres|].
    apply Hleast. apply (prefixed_pres _ v'); [apply pull_env_pres|exact Hv'].
  - now apply (fixed_pres mu mu').
  - intros v Hv. apply (le_pres mu mu' v (push_env rho pel G v)); trivial; [now apply (push_env_pres rho pel pnl G G')|].
    apply Hleast. apply (prefixed_pres v); [now apply (push_env_pres rho pel pnl G G')|exact Hv].
Qed.

(** the Kleene iterates of the presentation are the re-indexed iterates *)
Lemma Zk_env_pres k : env_pres rho pel G (Zk o G w k) (Zk o G' w' k).
Proof. intros l idx Hl Hidx _. now apply (Zk_presentation o Hring rho pel pnl). Qed.

(** certified enclosures: [hi] is above every Kleene iterate and a pre-fixed point, [lo] is below
    some Kleene iterate and below every pre-fixed point (so lo <= least fixed point <= hi) *)
Definition encloses_on (H : grammar) (S : list nat) (u : env (R:=R)) (lo hi : env (R:=R)) : Prop :=
  (forall k, le_on_set o H S (Zk o H u k) hi)
  /\ le_on_set o H S (step o H u hi) hi
  /\ (exists k, le_on_set o H S lo (Zk o H u k))
  /\ (forall v, le_on_set o H S (step o H u v) v -> le_on_set o H S lo v).

Theorem enclosure_presentation lo lo' hi hi' :
  env_pres rho pel G lo lo' -> env_pres rho pel G hi hi' ->
  (encloses_on G (nonterminals G) w lo hi <-> encloses_on G' (pres_labels pel G) w' lo' hi').
Proof.
  intros Hlo Hhi. split; intros (H1 & H2 & (k & H3) & H4); repeat split.
  - intros j. apply (le_pres (Zk o G w j) _ hi hi'); trivial. apply Zk_env_pres.
  - now apply (prefixed_pres hi hi').
  - exists k. apply (le_pres lo lo' (Zk o G w k) _); trivial. apply Zk_env_pres.
  - intros v' Hv'. apply (le_pres lo lo' (pull_env rho pel G v') v'); trivial; [apply pull_env_pres|].
    apply H4. apply (prefixed_pres _ v'); [apply pull_env_pres|exact Hv'].
  - intros j. apply (le_pres (Zk o G w j) (Zk o G' w' j) hi hi'); trivial. apply Zk_env_pres.
  - now apply (prefixed_pres hi hi').
  - exists k. apply (le_pres lo lo' (Zk o G w k) (Zk o G' w' k)); trivial. apply Zk_env_pres.
  - intros v Hv. apply (le_pres lo lo' v (push_env rho pel G v)); trivial; [now apply (push_env_pres rho pel pnl G G')|].
    apply H4. apply (prefixed_pres v); [now apply (push_env_pres rho pel pnl G G')|exact Hv].
Qed.
End Transfer.
End Steps.

(** * the labels of the presentation *)
Lemma is_term_false_lt G l : is_term G l = false -> l < length (g_labels G).
Proof.
  intros H. destruct (Nat.lt_ge_cases l (length (g_labels G))) as [Hl|Hl]; [exact Hl|].
  unfold is_term in H. rewrite nth_overflow in H by exact Hl. discriminate H.
Qed.

(** when [pel] reaches every nonterminal of the presentation, [pres_labels] IS its set of nonterminals *)
Lemma pres_labels_all rho pel pnl G G' :
  presents rho pel pnl G G' ->
  (forall X', In X' (nonterminals G') -> exists X, vlab G X /\ pel X = X') ->
  forall X', In X' (nonterminals G') <-> In X' (pres_labels pel G).
Proof.
  intros Hp Hs X'. split.
  - intros HX'. destruct (Hs X' HX') as (X & HX & <-). apply in_map. apply in_nonterminals. split; [exact HX|].
    rewrite <- (presents_is_term rho pel pnl G G' X Hp HX). now apply in_nonterminals in HX'.
  - intros HX'. apply in_map_iff in HX'. destruct HX' as (X & <- & HX). apply in_nonterminals in HX. destruct HX as [HX Ht].
    assert (Ht' : is_term G' (pel X) = false) by now rewrite (presents_is_term rho pel pnl G G' X Hp HX).
    apply in_nonterminals. split; [now apply is_term_false_lt|exact Ht'].
Qed.

Lemma NoDup_map_inj_on {A B} (f : A -> B) l :
  (forall x y, In x l -> In y l -> f x = f y -> x = y) -> NoDup l -> NoDup (map f l).
Proof.
  intros Hinj Hnd. induction Hnd as [|a l Hnin Hnd IH]; cbn [map]; constructor.
  - intros Hin. apply in_map_iff in Hin. destruct Hin as (b & E & Hb). apply Hnin.
    rewrite (Hinj a b); [exact Hb|now left|now right|now symmetry].
  - apply IH. intros x y Hx Hy. apply Hinj; now right.
Qed.

(** pigeonhole: a presentation with as many labels as the grammar, [pel] mapping labels to labels
    (as [relabel_grammar] does), reaches every label *)
Lemma presents_onto rho pel pnl G G' :
  presents rho pel pnl G G' ->
  (forall X, vlab G X -> pel X < length (g_labels G')) ->
  length (g_labels G') = length (g_labels G) ->
  forall X', X' < length (g_labels G') -> exists X, vlab G X /\ pel X = X'.
Proof.
  intros (_ & G2 & _ & _ & Hrel & _) Hrange Hlen X' HX'.
  set (n := length (g_labels G)) in *.
  assert (Hnd : NoDup (map pel (seq 0 n))).
  { apply NoDup_map_inj_on; [|apply seq_NoDup]. intros x y Hx Hy. apply in_seq in Hx, Hy.
    apply (rl_inj _ _ _ _ Hrel); lia. }
  assert (Hincl : incl (map pel (seq 0 n)) (seq 0 n)).
  { intros y Hy. apply in_map_iff in Hy. destruct Hy as (x & <- & Hx). apply in_seq in Hx.
    apply in_seq. specialize (Hrange x). unfold vlab in Hrange. fold n in Hrange. lia. }
  pose proof (@NoDup_length_incl nat (map pel (seq 0 n)) (seq 0 n) Hnd) as H.
  rewrite map_length, seq_length in H. specialize (H (Nat.le_refl n) Hincl X').
  assert (Hin : In X' (seq 0 n)) by (apply in_seq; lia).
  apply H in Hin. apply in_map_iff in Hin. destruct Hin as (x & E & Hx). apply in_seq in Hx.
  exists x. split; [unfold vlab; fold n; lia|exact E].
Qed.

Section Corollaries.
Context {R : Type} (o : sr_ops R) (Hring : sr_ring o) (Hord : sr_ordered o).

Lemma is_lfp_on_ext G S S' F (mu : env (R:=R)) :
  (forall X, In X S <-> In X S') -> is_lfp_on o G S F mu -> is_lfp_on o G S' F mu.
Proof.
  intros HS [H1 H2]. split.
  - intros X xi HX Hxi. apply H1; [now apply HS|exact Hxi].
  - intros v Hv X xi HX Hxi. apply H2; [|now apply HS|exact Hxi].
    intros Y yi HY Hyi. apply Hv; [now apply HS|exact Hyi].
Qed.

(** least fixed point of [G] <-> least fixed point of the presentation, on ALL its nonterminals *)
Theorem lfp_presentation_all rho pel pnl G G' (w w' mu mu' : env (R:=R)) :
  wf_grammar G = true -> presents rho pel pnl G G' -> weights_pres rho pel G w w' ->
  (forall X', In X' (nonterminals G') -> exists X, vlab G X /\ pel X = X') ->
  env_pres rho pel G mu mu' ->
  (is_lfp_on o G (nonterminals G) (step o G w) mu
   <-> is_lfp_on o G' (nonterminals G') (step o G' w') mu').
Proof.
  intros Hwf Hp Hw Hs Hmu. rewrite (lfp_presentation o Hring rho pel pnl G G' w w' Hwf Hp Hw mu mu' Hmu).
  pose proof (pres_labels_all rho pel pnl G G' Hp Hs) as HS.
  split; apply is_lfp_on_ext; intros X; [symmetry|]; apply HS.
Qed.

(** least fixed points are unique on the range, so: THE least fixed point of the presentation,
    read at the presented label and the transported index tuple, is THE least fixed point of G *)
Theorem lfp_value_presentation rho pel pnl G G' (w w' mu mu' : env (R:=R)) :
  wf_grammar G = true -> presents rho pel pnl G G' -> weights_pres rho pel G w w' ->
  is_lfp_on o G (nonterminals G) (step o G w) mu ->
  is_lfp_on o G' (pres_labels pel G) (step o G' w') mu' ->
  forall X xi, In X (nonterminals G) -> In xi (all_assts (lshape G X)) ->
    mu' (pel X) (pmap rho (ltype G X) xi) = mu X xi.
Proof.
  intros Hwf Hp Hw Hmu Hmu' X xi HX Hxi.
  pose proof (proj2 (lfp_presentation o Hring rho pel pnl G G' w w' Hwf Hp Hw _ mu' (pull_env_pres rho pel G mu')) Hmu') as Hpull.
  destruct Hmu as [Hf1 Hl1]. destruct Hpull as [Hf2 Hl2].
  change (pull_env rho pel G mu' X xi = mu X xi).
  apply (le_antisym o Hord).
  - apply Hl2; trivial. intros Y yi HY Hyi. rewrite (Hf1 Y yi HY Hyi). apply (le_refl o Hord).
  - apply Hl1; trivial. intros Y yi HY Hyi. rewrite (Hf2 Y yi HY Hyi). apply (le_refl o Hord).
Qed.

(** the certified enclosure computed for [G] by [enclosure] (Model/Kleene.v), re-indexed in any
    way, encloses the least fixed point of the presentation *)
Theorem enclosure_run_presentation (rd infl : R -> R) (leb : R -> R -> bool) :
  (forall x, le o (rd x) x) -> (forall x y, leb x y = true -> le o x y) ->
  forall rho pel pnl G G' (w w' : env (R:=R)) K lo u (lo' hi' : env (R:=R)),
  wf_grammar G = true -> presents rho pel pnl G G' -> weights_pres rho pel G w w' ->
  enclosure o rd infl leb G w K = Some (lo, u) ->
  env_pres rho pel G (env_of o lo) lo' -> env_pres rho pel G (env_of o u) hi' ->
  encloses_on o G' (pres_labels pel G) w' lo' hi'
  /\ forall mu', is_lfp_on o G' (pres_labels pel G) (step o G' w') mu' ->
       le_on_set o G' (pres_labels pel G) lo' mu' /\ le_on_set o G' (pres_labels pel G) mu' hi'.
Proof.
  intros Hrd Hleb rho pel pnl G G' w w' K lo u lo' hi' Hwf Hp Hw He Hlo Hhi.
  destruct (@enclosure_sound R o Hring Hord rd infl leb Hrd Hleb G w K lo u Hwf He) as (H1 & (j & _ & _ & H2) & H3 & _ & H5).
  assert (Henc : encloses_on o G (nonterminals G) w (env_of o lo) (env_of o u)).
  { split; [exact H1|]. split; [exact H5|]. split; [exists (4 * j); exact H2|exact H3]. }
  apply (enclosure_presentation o Hring rho pel pnl G G' w w' Hwf Hp Hw _ lo' _ hi' Hlo Hhi) in Henc.
  split; [exact Henc|]. intros mu' [Hf Hl]. destruct Henc as (_ & E2 & _ & E4). split.
  - apply E4. intros X xi HX Hxi. rewrite (Hf X xi HX Hxi). apply (le_refl o Hord).
  - now apply Hl.
Qed.

(** a Kleene iterate of [G] that is a fixed point: the same iterate of the presentation is its
    least fixed point *)
Theorem Zk_fixed_presentation rho pel pnl G G' (w w' : env (R:=R)) k :
  wf_grammar G = true -> presents rho pel pnl G G' -> weights_pres rho pel G w w' ->
  env_eq_on G (Zk o G w k) (Zk o G w (S k)) ->
  is_lfp_on o G' (pres_labels pel G) (step o G' w') (Zk o G' w' k).
Proof.
  intros Hwf Hp Hw Hfix.
  apply (lfp_presentation o Hring rho pel pnl G G' w w' Hwf Hp Hw (Zk o G w k)).
  - now apply (Zk_env_pres o Hring rho pel pnl).
  - destruct (Zk_fixed_is_least o Hring Hord G w k Hwf Hfix) as (H1 & H2 & _). split; [exact H1|exact H2].
Qed.

(** SCC by SCC: whatever exact runs (each component solved exactly, e.g. by the linear solve of
    [C02_linear_is_least_fixed_point], in ANY dependency-respecting orders) compute on [G] and on
    its presentation, the results correspond *)
Theorem scc_runs_presentation rho pel pnl G G' (w w' mu : env (R:=R)) order order' acc acc' final final' :
  wf_grammar G = true -> wf_grammar G' = true -> presents rho pel pnl G G' -> weights_pres rho pel G w w' ->
  (forall X', In X' (nonterminals G') -> exists X, vlab G X /\ pel X = X') ->
  is_lfp_on o G (nonterminals G) (step o G w) mu ->
  exact_run o G w order acc final -> dep_ordered G [] order ->
  (forall X, In X (nonterminals G) -> In X (concat order)) ->
  exact_run o G' w' order' acc' final' -> dep_ordered G' [] order' ->
  (forall X, In X (nonterminals G') -> In X (concat order')) ->
  forall X xi, In X (nonterminals G) -> In xi (all_assts (lshape G X)) ->
    final' (pel X) (pmap rho (ltype G X) xi) = final X xi.
Proof.
  intros Hwf Hwf' Hp Hw Hs Hmu Hrun Hdep Hall Hrun' Hdep' Hall' X xi HX Hxi.
  pose proof (proj1 (lfp_presentation_all rho pel pnl G G' w w' mu (push_env o rho pel G mu) Hwf Hp Hw Hs
                       (push_env_pres o rho pel pnl G G' mu Hwf Hp)) Hmu) as Hmu'.
  rewrite (scc_decomposition_all o Hring Hord G w Hwf mu order acc final Hmu Hrun Hdep Hall X xi HX Hxi).
  destruct (pres_cell_in rho pel pnl G G' Hwf Hp X xi HX Hxi) as (H1 & H2 & HX1 & Hxi1 & Ht).
  rewrite (scc_decomposition_all o Hring Hord G' w' Hwf' _ order' acc' final' Hmu' Hrun' Hdep' Hall' (pel X) _); trivial.
  - now apply (push_env_pres o rho pel pnl G G' mu Hwf Hp).
  - apply (pres_labels_all rho pel pnl G G' Hp Hs). exact H1.
Qed.

(** the same grammar, two dependency-respecting orders of (arbitrary, possibly recursive)
    components, each component solved exactly: the two runs agree on every nonterminal *)
Theorem scc_order_irrelevant_exact G (w mu : env (R:=R)) order order' acc acc' final final' :
  wf_grammar G = true ->
  is_lfp_on o G (nonterminals G) (step o G w) mu ->
  exact_run o G w order acc final -> dep_ordered G [] order ->
  (forall X, In X (nonterminals G) -> In X (concat order)) ->
  exact_run o G w order' acc' final' -> dep_ordered G [] order' ->
  (forall X, In X (nonterminals G) -> In X (concat order')) ->
  forall X xi, In X (nonterminals G) -> In xi (all_assts (lshape G X)) -> final' X xi = final X xi.
Proof.
  intros Hwf Hmu Hrun Hdep Hall Hrun' Hdep' Hall' X xi HX Hxi.
  rewrite (scc_decomposition_all o Hring Hord G w Hwf mu order acc final Hmu Hrun Hdep Hall X xi HX Hxi).
  apply (scc_decomposition_all o Hring Hord G w Hwf mu order' acc' final' Hmu Hrun' Hdep' Hall' X xi HX Hxi).
Qed.
End Corollaries.
