(** On a well-typed acyclic substitution, [stride] and [fv_occ] (as coded: following the forwarding
    chain with [lookup], then recursing into the binding) terminate within the fuel the model of
    [equal] / [allclose] gives them ([sub_fuel] = total size of the bindings + their number + 4):
    along any chain of nested calls the types strictly decrease, so every binding is entered at
    most once.  Also: the stride dict contains EVERY unbound axis reachable from the axis, and its
    keys are among the axes [fv_occ] yields. *)
From Coq Require Import List Arith Lia PeanoNat Bool PArith.
Import ListNotations.
Require Import Fggs.Model.Axis Fggs.Proofs.Axis_sem Fggs.Proofs.Axis_unify Fggs.Proofs.Axis_complete_gen.
Require Import Fggs.Proofs.Axis_typed Fggs.Proofs.Axis_rank Fggs.Proofs.Axis_stride_typed.
Require Fggs.Model.PTEqual.

(** * where [lookup] ends *)
Lemma lookup_origin G s : wts G s -> forall m k n e',
  lookup m s (Phys k n) = Ok e' -> G k <> [] ->
  e' = Phys k n \/ exists k', In (k', e') s /\ G k' = G k.
Proof.
  intros W. induction m as [|m IH]; intros k n e' H Gk; simpl in H.
  - destruct (assoc k s); [discriminate|]. inversion H. left. reflexivity.
  - destruct (assoc k s) as [T|] eqn:A; [|inversion H; left; reflexivity].
    apply assoc_In in A. destruct (wts_ty G s W k T A) as [_ HT]. right.
    destruct T as [j nj|l|b t a].
    + apply ty_phys_inv in HT. destruct HT as (Ej & Gj & _).
      destruct (IH j nj e' H Gj) as [->|(k' & Hk' & Ek')]; [exists k; auto|exists k'; split; [exact Hk'|congruence]].
    + destruct m; simpl in H; inversion H; subst; exists k; auto.
    + destruct m; simpl in H; inversion H; subst; exists k; auto.
Qed.

(** * the budget: total size of the bindings of keys of type weight at most [w] *)
Definition budget (G : ctx) (s : subst) (w : nat) : nat :=
  asize_list (map snd (filter (fun kT : positive * axis => tws (G (fst kT)) <=? w) s)).

Lemma budget_step G s k T w w' : In (k, T) s -> tws (G k) <= w -> w' < tws (G k) ->
  budget G s w' + asize T <= budget G s w.
Proof.
  unfold budget. induction s as [|[k0 T0] s IH]; intros H L1 L2; [contradiction|]. simpl.
  destruct H as [H|H].
  - inversion H; subst. destruct (Nat.leb_spec (tws (G k)) w) as [_|]; [|lia].
    destruct (Nat.leb_spec (tws (G k)) w') as [|_]; [lia|]. simpl.
    assert (M : forall s0, asize_list (map snd (filter (fun kT : positive * axis => tws (G (fst kT)) <=? w') s0))
                           <= asize_list (map snd (filter (fun kT : positive * axis => tws (G (fst kT)) <=? w) s0))).
    { induction s0 as [|[k1 T1] s0 IH0]; simpl; [lia|].
      destruct (Nat.leb_spec (tws (G k1)) w'), (Nat.leb_spec (tws (G k1)) w); simpl; lia. }
    specialize (M s). lia.
  - specialize (IH H L1 L2).
    destruct (Nat.leb_spec (tws (G k0)) w'), (Nat.leb_spec (tws (G k0)) w); simpl; lia.
Qed.

Lemma budget_le_all G s w : budget G s w <= asize_list (map snd s).
Proof.
  unfold budget. induction s as [|[k T] s IH]; simpl; [lia|]. destruct (tws (G k) <=? w); simpl; lia.
Qed.

(** * totality of [stride] *)
Lemma asize_pos e : 1 <= asize e.
Proof. destruct e; simpl; lia. Qed.

Lemma asize_In x l : In x l -> asize x <= asize_list l.
Proof.
  induction l as [|y l IH]; intros H; [destruct H|]. destruct H as [<-|H]; simpl; [lia|]. specialize (IH H). lia.
Qed.

Lemma stride_fold_total fuel sigma l :
  (forall x, In x l -> exists o s, stride fuel sigma x = Ok (o, s)) ->
  forall os0, exists o s, fold_left (stride_step fuel sigma) l (Ok os0) = Ok (o, s).
Proof.
  induction l as [|x l IH]; intros H os0; cbn [fold_left]; [destruct os0; eauto|].
  destruct (H x (or_introl eq_refl)) as (ox & sx & Ex). unfold stride_step at 2. cbn [bind]. rewrite Ex. cbn [bind].
  apply IH. intros y Hy. apply H. right. exact Hy.
Qed.

Section Total.
Variable G : ctx.
Variable sigma : subst.
Hypothesis W : wts G sigma.

Definition stride_ok_at (w : nat) : Prop :=
  forall fuel e ps, ty G e ps -> (forall j, In j (fv e) -> tws (G j) <= w) ->
    asize e + budget G sigma w + 1 <= fuel -> exists o s, stride fuel sigma e = Ok (o, s).

Lemma stride_total_w : forall w, stride_ok_at w.
Proof.
  induction w as [w IHw] using lt_wf_ind. unfold stride_ok_at.
  induction fuel as [|fuel IHf]; intros e ps He Hw Hf; [lia|].
  destruct e as [k n|l|b t a].
  - cbn [stride]. destruct (lookup_typed G sigma _ _ W He) as (look & L & Tl & Ul). rewrite L. cbn [bind].
    destruct (same_object look (Phys k n)) eqn:So; [eauto|].
    pose proof He as He'. apply ty_phys_inv in He'. destruct He' as (-> & Gk & _).
    destruct (lookup_origin G sigma W _ _ _ _ L Gk) as [->|(k' & Hk' & Ek')].
    { simpl in So. rewrite Pos.eqb_refl in So. discriminate. }
    destruct look as [j nj|l|b t a].
    + (* an unbound variable *)
      simpl in Hf. destruct fuel as [|fuel]; [lia|]. cbn [stride].
      assert (A : assoc j sigma = None) by (apply (Ul j nj eq_refl)).
      unfold lookup_fuel. simpl. rewrite A. cbn [bind]. simpl. rewrite Pos.eqb_refl. eauto.
    + assert (Wk : tws (G k) <= w) by (apply Hw; left; reflexivity).
      pose proof (tws_pos _ Gk) as P.
      apply (IHw (tws (G k) - 1)) with (ps := G k); [lia|exact Tl| |].
      * intros j Hj. destruct (proj1 (ty_weight_both G) _ _ Tl j Hj) as [_ X]. specialize (X eq_refl). lia.
      * pose proof (budget_step G sigma k' (Prod l) w (tws (G k) - 1) Hk'). rewrite Ek' in H. simpl in Hf. lia.
    + assert (Wk : tws (G k) <= w) by (apply Hw; left; reflexivity).
      pose proof (tws_pos _ Gk) as P.
      apply (IHw (tws (G k) - 1)) with (ps := G k); [lia|exact Tl| |].
      * intros j Hj. destruct (proj1 (ty_weight_both G) _ _ Tl j Hj) as [_ X]. specialize (X eq_refl). lia.
      * pose proof (budget_step G sigma k' (Sum b t a) w (tws (G k) - 1) Hk'). rewrite Ek' in H. simpl in Hf. lia.
  - rewrite stride_Prod. apply stride_fold_total. intros x Hx.
    apply ty_prod_inv in He. destruct He as [_ Hl].
    assert (Tx : exists px, ty G x px).
    { clear -Hl Hx. induction Hl as [|y l p1 ps' Hy Hty Hl IH]; [contradiction|]. destruct Hx as [<-|Hx]; eauto. }
    destruct Tx as (px & Tx). apply (IHf x px Tx).
    + intros j Hj. apply Hw. simpl. apply in_flat_map. eauto.
    + pose proof (asize_In x l Hx). simpl in Hf. fold (asize_list l) in Hf. lia.
  - cbn [stride]. apply ty_sum_inv in He. destruct He as (pre & tj & post & _ & _ & _ & Tt).
    destruct (IHf t _ Tt) as (o1 & s1 & E1); [exact Hw|simpl in Hf; lia|]. rewrite E1. cbn [bind]. eauto.
Qed.

(** [stride] of a typed physical axis with the fuel of the model *)
Theorem stride_total_typed k n : ty G (Phys k n) (G k) ->
  exists o s, stride (Fggs.Model.PTEqual.sub_fuel sigma) sigma (Phys k n) = Ok (o, s).
Proof.
  intros H. apply (stride_total_w (tws (G k)) _ _ _ H).
  - intros j [<-|[]]. lia.
  - unfold Fggs.Model.PTEqual.sub_fuel. pose proof (budget_le_all G sigma (tws (G k))). simpl. lia.
Qed.

End Total.

(** * [fv_occ] follows [stride] *)
Lemma stride_fv_fold fuel sigma
  (IH : forall e o s, stride fuel sigma e = Ok (o, s) ->
        exists r, fv_occ fuel sigma e = Ok r /\ forall j, In j (keys s) -> In j (map fst r)) :
  forall l os0 a0 o s, fold_left (stride_step fuel sigma) l (Ok os0) = Ok (o, s) ->
    (forall j, In j (keys (snd os0)) -> In j (map fst a0)) ->
    exists r, fold_left (fv_step fuel sigma) l (Ok a0) = Ok r /\ forall j, In j (keys s) -> In j (map fst r).
Proof.
  induction l as [|x l IHl]; intros os0 a0 o s H K; cbn [fold_left] in *.
  - inversion H; subst. exists a0. split; [reflexivity|exact K].
  - unfold stride_step at 2 in H. cbn [bind] in H. destruct (stride fuel sigma x) as [[ox sx]|e] eqn:Ex.
    + cbn [bind fst snd] in H. destruct (IH _ _ _ Ex) as (rx & Erx & Kx).
      unfold fv_step at 2. cbn [bind]. rewrite Erx. cbn [bind].
      apply (IHl _ _ _ _ H). cbn [snd]. intros j Hj. apply keys_merge in Hj. rewrite keys_scale in Hj.
      rewrite map_app. apply in_or_app. destruct Hj as [Hj|Hj]; [left; apply K; exact Hj|right; apply Kx; exact Hj].
    + cbn [bind] in H. rewrite fold_fail in H; [discriminate|]. intros e' x'. reflexivity.
Qed.

Theorem stride_fv_occ sigma : forall fuel e o s, stride fuel sigma e = Ok (o, s) ->
  exists r, fv_occ fuel sigma e = Ok r /\ forall j, In j (keys s) -> In j (map fst r).
Proof.
  induction fuel as [|fuel IH]; intros e o s H; [discriminate|]. destruct e as [k n|l|b t a].
  - cbn [stride fv_occ] in *. destruct (lookup (lookup_fuel sigma) sigma (Phys k n)) as [look|]; [|discriminate].
    cbn [bind] in *. destruct (same_object look (Phys k n)).
    + inversion H; subst. eexists. split; [reflexivity|]. intros j Hj. exact Hj.
    + exact (IH _ _ _ H).
  - rewrite stride_Prod in H. change (fv_occ (S fuel) sigma (Prod l)) with (fold_left (fv_step fuel sigma) l (Ok [])).
    apply (stride_fv_fold fuel sigma IH l (0, []) [] o s H). intros j [].
  - cbn [stride fv_occ] in *. destruct (stride fuel sigma t) as [[o1 s1]|] eqn:Et; [|discriminate].
    cbn [bind fst snd] in H. inversion H; subst. exact (IH _ _ _ Et).
Qed.

(** * the stride dict contains every unbound axis reachable from the axis *)
Lemma reach_unbound s k j : assoc k s = None -> reach s k j -> j = k.
Proof.
  intros A H. destruct H as [|k T j0 j' Hk _ _]; [reflexivity|]. exfalso.
  apply (assoc_None_notin _ _ A). apply in_map_iff. exists (k, T). auto.
Qed.

Lemma reach_bound_inv s k T j : NoDup (map fst s) -> assoc k s = Some T -> reach s k j -> k <> j ->
  exists j1, In j1 (fv T) /\ reach s j1 j.
Proof.
  intros N A H Ne. destruct H as [|k T' j0 j' Hk Hj R]; [congruence|].
  pose proof (assoc_In_nodup _ _ _ N Hk) as A'. rewrite A in A'. inversion A'; subst. eauto.
Qed.

Lemma lookup_reach_inv s : NoDup (map fst s) -> forall m k n look j,
  lookup m s (Phys k n) = Ok look -> reach s k j -> assoc j s = None ->
  exists j1, In j1 (fv look) /\ reach s j1 j.
Proof.
  intros N. induction m as [|m IH]; intros k n look j H R U; simpl in H.
  - destruct (assoc k s) eqn:A; [discriminate|]. inversion H; subst. exists k. split; [left; reflexivity|exact R].
  - destruct (assoc k s) as [T|] eqn:A; [|inversion H; subst; exists k; split; [left; reflexivity|exact R]].
    assert (Ne : k <> j) by (intros ->; congruence).
    destruct (reach_bound_inv s k T j N A R Ne) as (j1 & Hj1 & R1).
    destruct T as [j0 n0|l|b t a].
    + simpl in Hj1. destruct Hj1 as [<-|[]]. eapply IH; eauto.
    + destruct m; simpl in H; inversion H; subst; eauto.
    + destruct m; simpl in H; inversion H; subst; eauto.
Qed.

Lemma stride_fold_keys_sup fuel sigma : forall l os0 o s,
  fold_left (stride_step fuel sigma) l (Ok os0) = Ok (o, s) ->
  (forall j, In j (keys (snd os0)) -> In j (keys s)) /\
  (forall x ox sx, In x l -> stride fuel sigma x = Ok (ox, sx) -> forall j, In j (keys sx) -> In j (keys s)).
Proof.
  induction l as [|x l IH]; intros os0 o s H; cbn [fold_left] in H.
  - inversion H; subst. split; [auto|intros ? ? ? []].
  - unfold stride_step at 2 in H. cbn [bind] in H. destruct (stride fuel sigma x) as [[ox sx]|e] eqn:Ex.
    + cbn [bind fst snd] in H. destruct (IH _ _ _ H) as [K1 K2]. cbn [snd] in K1. split.
      * intros j Hj. apply K1. apply keys_merge. rewrite keys_scale. left. exact Hj.
      * intros y oy sy [<-|Hy] Ey j Hj.
        -- rewrite Ex in Ey. inversion Ey; subst. apply K1. apply keys_merge. right. exact Hj.
        -- eapply K2; eauto.
    + cbn [bind] in H. rewrite fold_fail in H; [discriminate|]. intros e' x'. reflexivity.
Qed.

Theorem stride_keys_complete sigma : NoDup (map fst sigma) ->
  forall fuel e o s, stride fuel sigma e = Ok (o, s) ->
  forall j0 j, In j0 (fv e) -> reach sigma j0 j -> assoc j sigma = None -> In j (keys s).
Proof.
  intros N. induction fuel as [|fuel IH]; intros e o s H j0 j Hj0 R U; [discriminate|].
  destruct e as [k n|l|b t a].
  - simpl in Hj0. destruct Hj0 as [<-|[]]. cbn [stride] in H.
    destruct (lookup (lookup_fuel sigma) sigma (Phys k n)) as [look|] eqn:L; [|discriminate]. cbn [bind] in H.
    destruct (same_object look (Phys k n)) eqn:So.
    + inversion H; subst. destruct look as [k' n'| |]; try discriminate. simpl in So. apply Pos.eqb_eq in So. subst k'.
      pose proof (lookup_unbound _ _ _ _ _ L) as A. rewrite (reach_unbound _ _ _ A R). left. reflexivity.
    + destruct (lookup_reach_inv sigma N _ _ _ _ _ L R U) as (j1 & Hj1 & R1). exact (IH _ _ _ H j1 j Hj1 R1 U).
  - rewrite stride_Prod in H. destruct (stride_fold_keys_sup fuel sigma l _ _ _ H) as [_ K].
    simpl in Hj0. apply in_flat_map in Hj0. destruct Hj0 as (x & Hx & Hj0).
    assert (Ex : exists ox sx, stride fuel sigma x = Ok (ox, sx)).
    { clear -H Hx. revert H. generalize (0, @nil (positive * nat)). induction l as [|y l IHl]; intros os0 H; [contradiction|].
      cbn [fold_left] in H. unfold stride_step at 2 in H. cbn [bind] in H.
      destruct (stride fuel sigma y) as [[oy sy]|e] eqn:Ey.
      - destruct Hx as [<-|Hx]; [eauto|]. cbn [bind] in H. eapply IHl; eauto.
      - cbn [bind] in H. rewrite fold_fail in H; [discriminate|]. intros e' x'. reflexivity. }
    destruct Ex as (ox & sx & Ex). apply (K x ox sx Hx Ex). exact (IH _ _ _ Ex j0 j Hj0 R U).
  - cbn [stride] in H. destruct (stride fuel sigma t) as [[o1 s1]|] eqn:Et; [|discriminate].
    cbn [bind fst snd] in H. inversion H; subst. exact (IH _ _ _ Et j0 j Hj0 R U).
Qed.

Example stride_total_ex :
  let s := [(1%positive, Prod [Phys 2 2; Phys 3 3]); (2%positive, Phys 4 2)] in
  exists o l, stride (Fggs.Model.PTEqual.sub_fuel s) s (Phys 1 6) = Ok (o, l).
Proof. eexists _, _. reflexivity. Qed.
