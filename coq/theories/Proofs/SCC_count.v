(** C19 -- the specification also fixes the NUMBER of components: two decompositions of one graph
    that satisfy it are equally long (a partition-equivalence argument; no axioms). *)
From Coq Require Import List Arith Bool PeanoNat Lia Permutation.
Import ListNotations.
Require Import Fggs.Model.SCC Fggs.Proofs.SCC_checker Fggs.Proofs.SCC_tarjan Fggs.Proofs.SCC_unique.

Definition seteq (a b : list nat) : Prop := forall v, In v a <-> In v b.

Definition part_equiv (cs1 cs2 : list (list nat)) : Prop :=
  NoDup (concat cs1) /\ NoDup (concat cs2) /\
  (forall c, In c cs1 -> c <> []) /\ (forall c, In c cs2 -> c <> []) /\
  (forall c1, In c1 cs1 -> exists c2, In c2 cs2 /\ seteq c1 c2) /\
  (forall c2, In c2 cs2 -> exists c1, In c1 cs1 /\ seteq c2 c1).

Lemma NoDup_concat_remove (a : list (list nat)) c b :
  NoDup (concat (a ++ c :: b)) -> NoDup (concat (a ++ b)).
Proof.
  intros H. rewrite concat_app in H. cbn [concat] in H.
  apply NoDup_app_iff in H. destruct H as [Ha [Hcb Hd]].
  apply NoDup_app_iff in Hcb. destruct Hcb as [_ [Hb _]].
  rewrite concat_app. apply NoDup_app_iff.
  split; [exact Ha|]. split; [exact Hb|].
  intros x Hx Hxb. apply (Hd x Hx). apply in_or_app. right. exact Hxb.
Qed.

Lemma nonempty_has (c : list nat) : c <> [] -> exists x, In x c.
Proof. destruct c as [|x c]; [congruence|]. intros _. exists x. left. reflexivity. Qed.

Lemma part_equiv_length cs1 : forall cs2, part_equiv cs1 cs2 -> length cs1 = length cs2.
Proof.
  induction cs1 as [|c1 cs1 IH]; intros cs2 (N1 & N2 & E1 & E2 & F & B).
  - destruct cs2 as [|c2 cs2]; [reflexivity|].
    destruct (B c2 (or_introl eq_refl)) as [c [[] _]].
  - destruct (F c1 (or_introl eq_refl)) as [c2 [Hc2 Heq]].
    apply in_split in Hc2. destruct Hc2 as [a [b Ecs2]]. subst cs2.
    rewrite app_length. cbn [length]. rewrite Nat.add_succ_r, <- app_length. f_equal.
    apply IH. unfold part_equiv.
    assert (N1' : NoDup (concat cs1)).
    { cbn [concat] in N1. rewrite NoDup_app_iff in N1. tauto. }
    split; [exact N1'|]. split; [exact (NoDup_concat_remove a c2 b N2)|].
    split; [intros c Hc; apply E1; right; exact Hc|].
    split; [intros c Hc; apply E2; apply in_app_or in Hc; apply in_or_app; destruct Hc; [left|right;right]; assumption|].
    split.
    + intros c Hc. destruct (F c (or_intror Hc)) as [c' [Hc' Hs]].
      exists c'. split; [|exact Hs].
      apply in_app_or in Hc'. apply in_or_app. destruct Hc' as [H|[H|H]]; [left; exact H | | right; exact H].
      exfalso. subst c'. destruct (nonempty_has c (E1 c (or_intror Hc))) as [x Hx].
      assert (Hx1 : In x c1) by (apply Heq; apply Hs; exact Hx).
      cbn [concat] in N1. rewrite NoDup_app_iff in N1. destruct N1 as [_ [_ Hd]].
      apply (Hd x Hx1). exact (in_concat_intro cs1 c x Hc Hx).
    + intros c' Hc'.
      assert (Hc'2 : In c' (a ++ c2 :: b)).
      { apply in_app_or in Hc'. apply in_or_app. destruct Hc'; [left|right;right]; assumption. }
      destruct (B c' Hc'2) as [c [[Hc|Hc] Hs]]; [|exists c; split; assumption].
      exfalso. subst c. destruct (nonempty_has c' (E2 c' Hc'2)) as [x Hx].
      assert (Hx2 : In x c2) by (apply Heq; apply Hs; exact Hx).
      destruct (concat_split_disjoint a c2 b N2) as [Hac [Hcb _]].
      apply in_app_or in Hc'. destruct Hc' as [Hc'|Hc'].
      * exact (Hac x (in_concat_intro a c' x Hc' Hx) Hx2).
      * exact (Hcb x Hx2 (in_concat_intro b c' x Hc' Hx)).
Qed.

Theorem spec_count g cs1 cs2 : spec g cs1 -> spec g cs2 -> length cs1 = length cs2.
Proof.
  intros S1 S2. apply part_equiv_length.
  pose proof S1 as [N1 [_ [E1 _]]]. pose proof S2 as [N2 [_ [E2 _]]].
  unfold part_equiv. split; [exact N1|]. split; [exact N2|]. split; [exact E1|]. split; [exact E2|].
  split.
  - intros c1 Hc1. exact (spec_unique g cs1 cs2 S1 S2 c1 Hc1).
  - intros c2 Hc2. exact (spec_unique g cs2 cs1 S2 S1 c2 Hc2).
Qed.

(** Every list the oracle accepts has as many components as Tarjan's output. *)
Theorem scc_ok_count_is_tarjan g cs' :
  closed g = true -> scc_ok g cs' = true -> exists cs, scc g = Some cs /\ length cs' = length cs.
Proof.
  intros Hcl Hok. destruct (tarjan_correct g Hcl) as [cs [Hs Hok0]]. exists cs. split; [exact Hs|].
  apply (scc_ok_spec g cs Hcl) in Hok0. apply (scc_ok_spec g cs' Hcl) in Hok.
  exact (spec_count g cs' cs Hok Hok0).
Qed.
