(** C03: the dual numbers over a commutative semiring are a commutative semiring; ordered
    componentwise if the base is; a star semiring if the base is.  Projections of finite sums
    and products; the Leibniz rule for products ([leib]). *)
From Coq Require Import List Arith Bool PeanoNat Lia Ring Ring_theory.
Import ListNotations.
Require Import Fggs.Model.Semiring Fggs.Model.SumProduct Fggs.Model.Dual.
Require Import Fggs.Proofs.BigSum.

Section DualRing.
Context {R : Type} (o : sr_ops R).
Hypothesis Hr : sr_ring o.
Add Ring RingD1 : (sr_is_srt o Hr).

Local Notation D := (dual_ops o).

Lemma pair_eq (a b : R * R) : fst a = fst b -> snd a = snd b -> a = b.
Proof. destruct a, b; cbn; intros -> ->; reflexivity. Qed.

Theorem dual_ring : sr_ring D.
Proof.
  constructor; intros; apply pair_eq; cbn; ring.
Qed.

Theorem dual_ordered : sr_ordered o -> sr_ordered D.
Proof.
  intros Ho. constructor.
  - intros x. split; apply (le_refl o Ho).
  - intros x y z [H1 H2] [H3 H4]. split; eapply (le_trans o Ho); eassumption.
  - intros x y [H1 H2] [H3 H4]. apply pair_eq; apply (le_antisym o Ho); assumption.
  - intros x. split; apply (zero_le o Ho).
  - intros a b c d [H1 H2] [H3 H4]. split; cbn; apply (add_mono o Ho); assumption.
  - intros a b c [H1 H2]. split; cbn.
    + apply (mul_mono o Ho); assumption.
    + apply (add_mono o Ho).
      * apply (mul_mono o Ho); assumption.
      * replace (mul o (snd a) (fst b)) with (mul o (snd a) (fst b)) by reflexivity.
        apply (mul_mono o Ho); assumption.
Qed.

(** star (a + a' eps) = a* + a* a' a* eps: the derivative of the least solution of y = 1 + x y *)
Theorem dual_star : sr_ordered o -> sr_star o -> sr_star D.
Proof.
  intros Ho Hs. constructor.
  - intros [a a']. apply pair_eq; cbn.
    + apply (star_unfold o Hs).
    + set (s := star o a).
      assert (E : s = add o (one o) (mul o a s)) by apply (star_unfold o Hs).
      transitivity (mul o (mul o (add o (one o) (mul o a s)) a') s); [now rewrite <- E|]. ring.
  - intros [a a'] [b b'] [x x'] [H1 H2]. cbn in H1, H2. split; cbn.
    + apply (star_ind o Hs). exact H1.
    + set (s := star o a).
      assert (Hsb : le o (mul o s b) x) by (apply (star_ind o Hs); exact H1).
      assert (H3 : le o (add o (mul o a x') (add o (mul o a' x) b')) x').
      { replace (add o (mul o a x') (add o (mul o a' x) b'))
          with (add o (add o (mul o a x') (mul o a' x)) b') by ring. exact H2. }
      apply (star_ind o Hs) in H3. fold s in H3.
      eapply (le_trans o Ho); [|exact H3].
      replace (add o (mul o s b') (mul o (mul o (mul o s a') s) b))
        with (add o (mul o (mul o s a') (mul o s b)) (mul o s b')) by ring.
      replace (mul o s (add o (mul o a' x) b'))
        with (add o (mul o (mul o s a') x) (mul o s b')) by ring.
      apply (add_mono o Ho); [|apply (le_refl o Ho)].
      apply (mul_mono o Ho). exact Hsb.
Qed.

(** * projections of finite sums and products *)
Lemma fst_sum_list l : fst (sum_list D l) = sum_list o (map fst l).
Proof. induction l as [|x l IH]; [reflexivity|]. cbn. now rewrite IH. Qed.
Lemma snd_sum_list l : snd (sum_list D l) = sum_list o (map snd l).
Proof. induction l as [|x l IH]; [reflexivity|]. cbn. now rewrite IH. Qed.

Lemma fst_sumS {A} (l : list A) (f : A -> R * R) : fst (sumS D l f) = sumS o l (fun x => fst (f x)).
Proof. unfold sumS. now rewrite fst_sum_list, map_map. Qed.
Lemma snd_sumS {A} (l : list A) (f : A -> R * R) : snd (sumS D l f) = sumS o l (fun x => snd (f x)).
Proof. unfold sumS. now rewrite snd_sum_list, map_map. Qed.

Lemma fst_prodS {A} (l : list A) (f : A -> R * R) : fst (prodS D l f) = prodS o l (fun x => fst (f x)).
Proof.
  induction l as [|x l IH]; [reflexivity|].
  rewrite !prodS_cons. cbn [mul dual_ops fst]. now rewrite IH.
Qed.

(** the epsilon part of a product is the Leibniz sum *)
Lemma snd_prodS {A} (l : list A) (f : A -> R * R) :
  snd (prodS D l f) = leib o l (fun x => fst (f x)) (fun x => snd (f x)).
Proof.
  induction l as [|x l IH]; [reflexivity|].
  rewrite prodS_cons. cbn [mul dual_ops snd leib]. rewrite IH, fst_prodS. ring.
Qed.

(** * the Leibniz sum *)
Lemma leib_ext {A} (l : list A) p p' d d' :
  (forall x, In x l -> p x = p' x) -> (forall x, In x l -> d x = d' x) -> leib o l p d = leib o l p' d'.
Proof.
  induction l as [|x l IH]; intros Hp Hd; [reflexivity|]. cbn [leib].
  rewrite (Hp x), (Hd x) by now left.
  rewrite (prodS_ext o l p p'), IH; trivial; intros y Hy; [apply Hp|apply Hd|apply Hp]; now right.
Qed.
Lemma leib_zero {A} (l : list A) p d : (forall x, In x l -> d x = zero o) -> leib o l p d = zero o.
Proof.
  induction l as [|x l IH]; intros Hd; [reflexivity|]. cbn [leib].
  rewrite (Hd x), IH by (try (now left); intros y Hy; apply Hd; now right). ring.
Qed.
Lemma leib_add {A} (l : list A) p d1 d2 :
  leib o l p (fun x => add o (d1 x) (d2 x)) = add o (leib o l p d1) (leib o l p d2).
Proof. induction l as [|x l IH]; cbn [leib]; [ring|]. rewrite IH. ring. Qed.
Lemma leib_scale {A} (l : list A) p d c :
  leib o l p (fun x => mul o c (d x)) = mul o c (leib o l p d).
Proof. induction l as [|x l IH]; cbn [leib]; [ring|]. rewrite IH. ring. Qed.

(** ... as a sum over the ways of singling out one factor: d(x) times the product of the others *)
Lemma splits_cons {A} (x : A) l :
  splits (x :: l) = ([], x, l) :: map (fun s => (x :: fst (fst s), snd (fst s), snd s)) (splits l).
Proof. reflexivity. Qed.

Lemma leib_splits {A} (l : list A) p d :
  leib o l p d = sumS o (splits l) (fun s => mul o (d (snd (fst s))) (prodS o (fst (fst s) ++ snd s) p)).
Proof.
  induction l as [|x l IH]; [reflexivity|].
  rewrite splits_cons, sumS_cons, sumS_map. cbn [leib fst snd app]. f_equal.
  rewrite IH, (sumS_mul_l o Hr). apply sumS_ext. intros [[l1 y] l2] _. cbn [fst snd app].
  rewrite prodS_cons. ring.
Qed.

Lemma splits_spec {A} (l : list A) s : In s (splits l) -> l = fst (fst s) ++ snd (fst s) :: snd s.
Proof.
  revert s. induction l as [|x l IH]; intros s Hs; [destruct Hs|].
  rewrite splits_cons in Hs. destruct Hs as [<-|Hs]; [reflexivity|].
  apply in_map_iff in Hs. destruct Hs as ([[l1 y] l2] & <- & Hs'). cbn. f_equal. exact (IH _ Hs').
Qed.
Lemma splits_length {A} (l : list A) : length (splits l) = length l.
Proof. induction l as [|x l IH]; [reflexivity|]. rewrite splits_cons. cbn [length]. now rewrite map_length, IH. Qed.

(** Euler: sum over the factors of (value of the factor) * (product of the others) = n * product *)
Lemma leib_self {A} (l : list A) p : leib o l p p = mul o (from_nat o (length l)) (prodS o l p).
Proof.
  induction l as [|x l IH]; cbn [leib length from_nat]; [rewrite prodS_nil; ring|].
  rewrite IH, prodS_cons. ring.
Qed.
End DualRing.
