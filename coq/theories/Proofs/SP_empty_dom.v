(** C01, size-0 domains: a rule one of whose nodes (attached or not, external or internal) ranges over
    an EMPTY domain has no assignment, so its value is the semiring zero; in particular the code
    ([multiply_in_disconnected_internals], multiplier 0) must return zero for an unattached internal
    node over an empty domain -- it may not skip the multiplication as it does for multiplier 1. *)
From Coq Require Import List Arith Bool PeanoNat Lia Ring Ring_theory.
Import ListNotations.
Require Import Fggs.Model.Semiring Fggs.Model.SCC Fggs.Model.SumProduct.
Require Import Fggs.Proofs.BigSum Fggs.Proofs.SP_trees Fggs.Proofs.SP_code Fggs.Proofs.SP_driver
               Fggs.Proofs.SP_corollaries Fggs.Proofs.SP_examples.

Lemma all_assts_zero sizes : In 0 sizes -> all_assts sizes = [].
Proof.
  induction sizes as [|n rest IH]; intros H; [contradiction|].
  destruct H as [->|H]; [reflexivity|].
  cbn [all_assts]. rewrite (IH H).
  induction (seq 0 n) as [|i l IHl]; [reflexivity|]. cbn. exact IHl.
Qed.

Section EmptyDom.
Context {R : Type} (o : sr_ops R).
Hypothesis Hr : sr_ring o.
Add Ring RingR_ed : (sr_is_srt o Hr).

(** any node over an empty domain: the rule has no assignment *)
Theorem rule_val_empty_domain_node G (e : env (R:=R)) r xi :
  In 0 (node_sizes G r) -> rule_val o G e r xi = zero o.
Proof.
  intros H. unfold rule_val. rewrite (all_assts_zero _ H). reflexivity.
Qed.

(** hence every nonterminal ALL of whose rules have such a node is zero in every Kleene iterate *)
Theorem Zk_empty_domain_rules G (w : env (R:=R)) k X xi :
  is_term G X = false ->
  (forall r, In r (rules_of G X) -> In 0 (node_sizes G r)) ->
  Zk o G w k X xi = zero o.
Proof.
  intros HX Hall. destruct k as [|k]; [reflexivity|].
  cbn [Zk]. unfold step. rewrite HX.
  rewrite (sumS_ext o _ _ (fun _ => zero o)).
  - apply (sumS_zero o Hr).
  - intros r Hin. apply rule_val_empty_domain_node. now apply Hall.
Qed.

(** the code-shaped model on a rule with one more unattached internal node over an empty domain *)
Theorem spe_isolated_internal_empty G e r nl xi :
  wf_rule G r = true -> nl < length (g_doms G) -> dom G nl = 0 ->
  In xi (all_assts (lshape G (r_lhs r))) ->
  oapp o (spe o (node_sizes G (add_node r nl)) e (r_edges r) (r_ext r)) xi = zero o.
Proof.
  intros Hwf Hnl Hd Hxi.
  rewrite (spe_isolated_internal o Hr G e r nl xi Hwf Hnl Hxi), Hd. cbn [from_nat]. ring.
Qed.
End EmptyDom.

(** the hypotheses are satisfiable with a NON-zero value of the rule without the extra node: the grammar
    N0 = {0,1}, N1 = {} ; t0 : N0 (terminal, label 0) ; X (label 1, arity 0) -> t0(a) ; in the natural
    numbers with t0 = [2; 3] the rule is worth 5, with one more unattached node over N1 it is worth 0 *)
Definition G_empty : grammar :=
  {| g_doms := [2; 0]; g_labels := [(true, [0]); (false, [])];
     g_rules := [{| r_lhs := 1; r_nodes := [0]; r_edges := [(0, [0])]; r_ext := [] |}]; g_start := 1 |}.
Definition r_empty : rule := {| r_lhs := 1; r_nodes := [0]; r_edges := [(0, [0])]; r_ext := [] |}.
Example G_empty_wf : wf_grammar G_empty = true /\ wf_rule G_empty r_empty = true /\ dom G_empty 1 = 0.
Proof. repeat split; reflexivity. Qed.
Example r_empty_value :
  rule_val nat_ops_example G_empty (fun _ xi => 2 + nth 0 xi 0) r_empty [] = 5
  /\ rule_val nat_ops_example G_empty (fun _ xi => 2 + nth 0 xi 0) (add_node r_empty 1) [] = 0
  /\ oapp nat_ops_example (spe nat_ops_example (node_sizes G_empty (add_node r_empty 1))
                               (fun l => if Nat.eqb l 0 then Some (fun xi => 2 + nth 0 xi 0) else None)
                               (r_edges r_empty) (r_ext r_empty)) [] = 0.
Proof. vm_compute. repeat split; reflexivity. Qed.
