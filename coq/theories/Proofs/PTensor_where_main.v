(** [where(t, c, u)] on three operands of one typed shape denotes [torch.where(c, t, u)]:
    the wrapper around [where_core] (swap on [c.default], freshening of [t], [broadcast()]). *)
From Coq Require Import List Arith Lia PeanoNat Bool PArith.
Import ListNotations.
Require Import Fggs.Model.Axis Fggs.Model.AxisCheck Fggs.Model.PTensor Fggs.Model.PTensorOps Fggs.Model.PTensorCheck Fggs.Model.PTEqual.
Require Import Fggs.Proofs.Axis_sem Fggs.Proofs.Axis_unify Fggs.Proofs.Axis_complete_gen Fggs.Proofs.Axis_typed Fggs.Proofs.Axis_total.
Require Import Fggs.Proofs.PTensor_sem Fggs.Proofs.PTensor_dense Fggs.Proofs.PTensor_gen.
Require Import Fggs.Proofs.PTEqual_typed Fggs.Proofs.PTEqual_typed_main Fggs.Proofs.PTEqual_freshen.
Require Import Fggs.Proofs.PTensor_project Fggs.Proofs.PTensor_where Fggs.Proofs.PTensor_where_thm.
Local Open Scope nat_scope.

Section Where.
Variable V : Type.
Variable truth : V -> bool.
Variable G : ctx.
Variable next : positive.
Variable pss : list (list ity).
Hypothesis CG : ctx_good G.
Hypothesis CB : ctx_below G next.
Hypothesis Gp : Forall gprimes pss.

(** after the swap: [t] is what [c] selects when it differs from its default *)
Lemma where_swapped cd (t c u : ptensor V) r nx' :
  cd = truth (default c) -> wf V t -> wf V c -> wf V u ->
  tys G (vaxes t) pss -> tys G (vaxes c) pss -> tys G (vaxes u) pss ->
  (let '(t2, next2) := if disjoint_b (paxes t) (paxes c) then (t, next) else pt_freshen V next t in
   b <- broadcast_model [vaxes t2; vaxes c; vaxes u] next2 ;;
   match b with
   | ([(t_vaxes, _); (c_vaxes, c_new); (u_vaxes, u_new)], nx2) => where_body V truth cd t2 c u t_vaxes c_vaxes u_vaxes c_new u_new nx2
   | _ => Fail OtherError
   end) = Ok (r, nx') ->
  wf V r /\ shape V r = shape V c /\ default r = default u /\
  forall idx, length idx = length (vaxes c) ->
    denote V r idx = if xorb (truth (denote V c idx)) cd then denote V t idx else denote V u idx.
Proof.
  intros Hcd Wt Wc Wu Tt Tc Tu.
  assert (TP : typed_pair V G next pss c t) by (split; assumption).
  destruct (disjoint_b (paxes t) (paxes c)) eqn:D.
  - rewrite (broadcast_same (vaxes t) (vaxes c) (vaxes u) next) by (rewrite (tys_numel _ _ _ Tt), ?(tys_numel _ _ _ Tc), ?(tys_numel _ _ _ Tu); reflexivity).
    cbn [bind]. intros H.
    apply (where_core V truth t c u cd Hcd Wt Wc Wu G next pss CG CB Tt Tc Tu Gp) with (nx' := nx'); [|exact H].
    intros k Hk Ht. unfold disjoint_b in D. apply negb_true_iff in D.
    assert (existsb (fun kn : pn => pmem (fst kn) (map fst (paxes c))) (paxes t) = true); [|congruence].
    apply in_map_iff in Ht. destruct Ht as ([k' n] & <- & Ht). apply existsb_exists. exists (k', n). split; [exact Ht|]. apply pmem_In. exact Hk.
  - destruct (pt_freshen V next t) as [t2 next2] eqn:Ef.
    assert (E2 : t2 = fst (pt_freshen V next t)) by (rewrite Ef; reflexivity).
    assert (En : next2 = snd (pt_freshen V next t)) by (rewrite Ef; reflexivity).
    pose proof (pt_freshen_wf V t next Wt) as Wt2. rewrite <- E2 in Wt2.
    pose proof (fresh_tys_u V c t G next pss TP) as Tt2. rewrite <- E2 in Tt2.
    pose proof (fresh_tys_t V c t G next pss TP) as Tc2.
    pose proof (fresh_ctx_good V c t G next pss TP) as CG2.
    pose proof (fresh_ctx_below V c t G next pss TP) as CB2. rewrite <- En in CB2.
    assert (Tu2 : tys (fresh_ctx V t G next) (vaxes u) pss).
    { apply (tys_agree G); [exact Tu|]. intros k Hk. unfold fresh_ctx.
      assert (Lk : (k < next)%positive) by (apply (keys_below_next V c t G next pss TP u Wu Tu); apply (fv_paxes V u Wu); exact Hk).
      destruct (Pos.ltb_spec k next); [reflexivity|lia]. }
    rewrite (broadcast_same (vaxes t2) (vaxes c) (vaxes u) next2) by (rewrite (tys_numel _ _ _ Tt2), ?(tys_numel _ _ _ Tc), ?(tys_numel _ _ _ Tu); reflexivity).
    cbn [bind]. intros H.
    destruct (where_core V truth t2 c u cd Hcd Wt2 Wc Wu (fresh_ctx V t G next) next2 pss CG2 CB2 Tt2 Tc2 Tu2 Gp) with (r := r) (nx' := nx') as (A1 & A2 & A3 & A4).
    + intros k Hk Ht. pose proof (keys_below_next V c t G next pss TP c Wc Tc k Hk).
      rewrite E2 in Ht. pose proof (pt_freshen_fresh V t next Wt k Ht). lia.
    + exact H.
    + split; [exact A1|]. split; [exact A2|]. split; [exact A3|]. intros idx Li. rewrite (A4 idx Li).
      rewrite E2, (pt_freshen_denote V t next Wt idx); [reflexivity|].
      rewrite Li, (tys_length _ _ _ Tc), (tys_length _ _ _ Tt). reflexivity.
Qed.

(** Full statement (property C06): for all well-formed operands whose shapes broadcast,
    [denote (where t c u) idx = if truth (denote c idx') then denote t idx'' else denote u idx'''] with the
    broadcast indices.  Proved: the case where the three operands have one typed shape (no broadcasting
    between them); broadcasting between the operands of [where] stays open (correspondence only). *)
Theorem where_refines_partial (t c u r : ptensor V) nx' :
  wf V t -> wf V c -> wf V u ->
  tys G (vaxes t) pss -> tys G (vaxes c) pss -> tys G (vaxes u) pss ->
  pt_where V truth next t c u = Ok (r, nx') ->
  wf V r /\ shape V r = shape V c /\
  forall idx, in_bounds (shape V c) idx ->
    denote V r idx = if truth (denote V c idx) then denote V t idx else denote V u idx.
Proof.
  intros Wt Wc Wu Tt Tc Tu H. rewrite pt_where_unfold in H. cbv zeta in H.
  destruct (truth (default c)) eqn:Ecd.
  - destruct (where_swapped true u c t r nx' (eq_sym Ecd) Wu Wc Wt Tu Tc Tt H) as (A1 & A2 & _ & A4).
    split; [exact A1|]. split; [exact A2|]. intros idx Bd. rewrite (A4 idx).
    + destruct (truth (denote V c idx)); reflexivity.
    + apply Forall2_len in Bd. unfold shape in Bd. rewrite map_length in Bd. exact Bd.
  - destruct (where_swapped false t c u r nx' (eq_sym Ecd) Wt Wc Wu Tt Tc Tu H) as (A1 & A2 & _ & A4).
    split; [exact A1|]. split; [exact A2|]. intros idx Bd. rewrite (A4 idx).
    + rewrite xorb_false_r. reflexivity.
    + apply Forall2_len in Bd. unfold shape in Bd. rewrite map_length in Bd. exact Bd.
Qed.

End Where.

(** the hypotheses are satisfiable: [t] stored on the diagonal of a 2 x 2 matrix (default 9), [c] dense
    (1 = True), [u] dense; off the diagonal the result is [t.default] where [c] is True *)
Definition wh_t : ptensor nat := mkPT (fun c => match c with [i] => 10 + i | _ => 0 end) [(1%positive, 2)] [Phys 1 2; Phys 1 2] 9.
Definition wh_c : ptensor nat := mkPT (fun c => match c with [i; j] => if Nat.eqb i j then 1 else (if Nat.eqb i 0 then 1 else 0) | _ => 0 end)
                                      [(2%positive, 2); (3%positive, 2)] [Phys 2 2; Phys 3 2] 0.
Definition wh_u : ptensor nat := mkPT (fun c => match c with [i; j] => 20 + 2 * i + j | _ => 0 end)
                                      [(4%positive, 2); (5%positive, 2)] [Phys 4 2; Phys 5 2] 0.

Example where_ex :
  let G : ctx := fun k => if Pos.ltb k 6 then [TAtom 2] else [] in
  let truth := fun n => negb (Nat.eqb n 0) in
  ctx_good G /\ ctx_below G 6 /\ Forall gprimes [[TAtom 2]; [TAtom 2]] /\
  tys G (vaxes wh_t) [[TAtom 2]; [TAtom 2]] /\ tys G (vaxes wh_c) [[TAtom 2]; [TAtom 2]] /\ tys G (vaxes wh_u) [[TAtom 2]; [TAtom 2]] /\
  exists r nx', pt_where nat truth 6 wh_t wh_c wh_u = Ok (r, nx') /\
    map (denote nat r) [[0; 0]; [0; 1]; [1; 0]; [1; 1]] = [10; 9; 22; 11].
Proof.
  cbv zeta. split; [|split; [|split; [|split; [|split; [|split]]]]].
  - intros k. destruct (Pos.ltb k 6); repeat constructor.
  - intros k Hk. destruct (Pos.ltb_spec k 6); [lia|reflexivity].
  - repeat constructor.
  - constructor; [apply ty_phys'; [reflexivity|discriminate|reflexivity]|constructor; [apply ty_phys'; [reflexivity|discriminate|reflexivity]|constructor]].
  - constructor; [apply ty_phys'; [reflexivity|discriminate|reflexivity]|constructor; [apply ty_phys'; [reflexivity|discriminate|reflexivity]|constructor]].
  - constructor; [apply ty_phys'; [reflexivity|discriminate|reflexivity]|constructor; [apply ty_phys'; [reflexivity|discriminate|reflexivity]|constructor]].
  - do 2 eexists. split; [vm_compute; reflexivity|vm_compute; reflexivity].
Qed.
