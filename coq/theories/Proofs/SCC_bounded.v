(** Bounded, in-kernel correctness of the Tarjan model: every labelled digraph with
    at most 4 vertices (self-loops allowed, successor lists increasing, vertices
    inserted in increasing order), plus all vertex/successor insertion orders on 3 vertices.
    A proof for the stated finite domain only; the unbounded theorem is in SCC_tarjan.v. *)
From Coq Require Import List Arith Bool PeanoNat NArith.
Import ListNotations.
Require Import Fggs.Model.SCC.

Fixpoint sublists (l : list nat) : list (list nat) :=
  match l with [] => [[]] | x :: l => let r := sublists l in r ++ map (cons x) r end.
Fixpoint all_graphs (vs all : list nat) : list graph :=
  match vs with
  | [] => [[]]
  | v :: vs => flat_map (fun ws => map (cons (v, ws)) (all_graphs vs all)) (sublists all)
  end.
Definition graphs_on (n : nat) : list graph := all_graphs (seq 0 n) (seq 0 n).
Definition graphs_upto4 : list graph := graphs_on 0 ++ graphs_on 1 ++ graphs_on 2 ++ graphs_on 3 ++ graphs_on 4.

Definition tarjan_ok (g : graph) : bool :=
  match scc g with Some cs => scc_ok g cs | None => false end.

Lemma tarjan_ok_upto4_b : forallb tarjan_ok graphs_upto4 = true.
Proof. vm_compute. reflexivity. Qed.

Theorem tarjan_correct_upto4 :
  forall g, In g graphs_upto4 -> exists cs, scc g = Some cs /\ scc_ok g cs = true.
Proof.
  intros g Hg. pose proof (proj1 (forallb_forall _ _) tarjan_ok_upto4_b g Hg) as H.
  unfold tarjan_ok in H. destruct (scc g) as [cs|]; [|discriminate]. exists cs; auto.
Qed.

(** all insertion orders: permutations of the vertex list and of each successor list, 3 vertices *)
Fixpoint insert_all (x : nat) (l : list nat) : list (list nat) :=
  match l with [] => [[x]] | y :: l' => (x :: l) :: map (cons y) (insert_all x l') end.
Fixpoint perms (l : list nat) : list (list nat) :=
  match l with [] => [[]] | x :: l => flat_map (insert_all x) (perms l) end.
Fixpoint all_graphs_perm (vs all : list nat) : list graph :=
  match vs with
  | [] => [[]]
  | v :: vs => flat_map (fun ws => flat_map (fun ws' => map (cons (v, ws')) (all_graphs_perm vs all)) (perms ws)) (sublists all)
  end.
Definition graphs_perm3 : list graph := flat_map (fun vs => all_graphs_perm vs (seq 0 3)) (perms (seq 0 3)).

Lemma tarjan_ok_perm3_b : forallb tarjan_ok graphs_perm3 = true.
Proof. vm_compute. reflexivity. Qed.

Theorem tarjan_correct_perm3 :
  forall g, In g graphs_perm3 -> exists cs, scc g = Some cs /\ scc_ok g cs = true.
Proof.
  intros g Hg. pose proof (proj1 (forallb_forall _ _) tarjan_ok_perm3_b g Hg) as H.
  unfold tarjan_ok in H. destruct (scc g) as [cs|]; [|discriminate]. exists cs; auto.
Qed.

Example graphs_upto4_size : N.of_nat (length graphs_upto4) = 66067%N.
Proof. vm_compute. reflexivity. Qed.
