(** C07: re-indexing of the sum.  The sum over the physical index tuples of the result (the
    unbound axes [K] of the unified operands), read through the extension [ext] of the
    substitution, is a sub-sum of the support form of the specification -- every term is a term of
    the specification and no term occurs twice (soundness of unify + injectivity of the
    parametrisation, C06_at_most_one_backing) -- and the whole of it when the unifier is complete
    (counting criterion). *)
From Coq Require Import List Arith Bool PeanoNat Lia Permutation Ring Ring_theory PArith.
Import ListNotations.
Require Import Fggs.Model.Semiring Fggs.Model.SumProduct.
Require Import Fggs.Proofs.BigSum Fggs.Proofs.SP_trees.
Require Import Fggs.Model.Axis Fggs.Model.PTensor Fggs.Model.AxisCheck Fggs.Model.Einsum Fggs.Model.EinsumCheck Fggs.Model.EinsumCert.
Require Import Fggs.Proofs.Axis_sem Fggs.Proofs.PTensor_sem Fggs.Proofs.PTensor_dense Fggs.Proofs.PTensor_gen.
Require Import Fggs.Proofs.Einsum_dense Fggs.Proofs.Einsum_envs Fggs.Proofs.Einsum_support Fggs.Proofs.Einsum_form Fggs.Proofs.Einsum_subst.

Section Reindex.
Context {R : Type} (o : sr_ops R).
Hypothesis Hr : sr_ring o.
Add Ring RingEX : (sr_is_srt o Hr).
Notation r0 := (Semiring.zero o).
Notation ptensor := (ptensor R).

Variables (ts : list ptensor) (inputs : list (list nat)) (output : list nat) (i2v : list (nat * axis)).
Let occ := occurrences ts inputs.
Let V := all_vars ts.
Hypothesis HL : length ts = length inputs.
Hypothesis HW : Forall (wf R) ts.
Hypothesis HD : Forall (fun t => default t = r0) ts.
Hypothesis HF : Forall2 (fun t inp => length (vaxes t) = length inp) ts inputs.
Hypothesis HN : NoDup (map fst V).
Hypothesis Hout : forall l, In l output -> lassoc l i2v <> None.
Hypothesis Hi2v : forall l e0, lassoc l i2v = Some e0 -> In (l, e0) occ.
Hypothesis Hsz : forall l e, In (l, e) occ -> exists e0, lassoc l i2v = Some e0 /\ numel e0 = numel e.

Variables (sigma : subst) (F : nat) (K : list pn).
Hypothesis ND : NoDup (map fst sigma).
Hypothesis HC : forall k e, In (k, e) sigma -> closed sigma (resolve F sigma (Phys k 0)) = true.
Hypothesis SZ : Sized sigma.
Hypothesis NK : NoDup (map fst K).
Hypothesis KU : forall k n, In (k, n) K -> assoc k sigma = None.
Hypothesis VS : forall x n, In (x, n) V -> sized sigma (Phys x n) = true.
Hypothesis VK : forall x n, In (x, n) V -> forall kn, In kn (fvn (resolve F sigma (Phys x n))) -> In kn K.
Hypothesis KV : forall k n, In (k, n) K -> In k (flat_map fv (map (resolve F sigma) (phys_axes V))).
(** soundness of the unification loop *)
Hypothesis LS : forall rho, models rho sigma -> coinc_b i2v occ rho = true.

Definition xt (pi : list (positive * nat)) : env := ext sigma F (env_of pi).
Definition phi (pi : list (positive * nat)) : list (positive * nat) := restrict (xt pi) V.

Lemma occ_fv l e k : In (l, e) occ -> In k (fv e) -> In k (map fst V).
Proof.
  intros He Hk. unfold occ, occurrences in He. apply in_flat_map in He. destruct He as ([t inp] & Hti & He). simpl in He.
  apply in_combine_r in He. assert (Ht : In t ts) by (apply in_combine_l in Hti; exact Hti).
  apply (in_all_vars ts). exists t. split; [exact Ht|]. rewrite Forall_forall in HW.
  apply wf_keys_fv; [apply HW; exact Ht|]. apply in_flat_map. exists e. split; assumption.
Qed.

Lemma coinc_ext r1 r2 : (forall k, In k (map fst V) -> r1 k = r2 k) -> coinc_b i2v occ r1 = coinc_b i2v occ r2.
Proof.
  intros H. unfold coinc_b. apply forallb_ext_in'. intros [l e] Hin. simpl. f_equal.
  - apply eval_ext. intros k Hk. apply H. exact (occ_fv l e k Hin Hk).
  - unfold lv. destruct (lassoc l i2v) as [e0|] eqn:E0; [|reflexivity].
    apply eval_ext. intros k Hk. apply H. exact (occ_fv l e0 k (Hi2v l e0 E0) Hk).
Qed.

Lemma lv_ext r1 r2 l : (forall k, In k (map fst V) -> r1 k = r2 k) -> lv i2v r1 l = lv i2v r2 l.
Proof.
  intros H. unfold lv. destruct (lassoc l i2v) as [e0|] eqn:E0; [|reflexivity].
  apply eval_ext. intros k Hk. apply H. exact (occ_fv l e0 k (Hi2v l e0 E0) Hk).
Qed.

Lemma phi_in pi : In pi (all_envs K) -> In (phi pi) (all_envs V).
Proof.
  intros Hp. unfold phi, restrict. apply all_envs_complete. intros x n Hx.
  apply (ext_bound sigma F SZ (env_of pi) x n K pi NK Hp eq_refl (VS x n Hx)). intros kn Hkn. exact (VK x n Hx kn Hkn).
Qed.

Lemma phi_env pi k : In k (map fst V) -> env_of (phi pi) k = xt pi k.
Proof. intros Hk. apply restrict_env. exact Hk. Qed.

Lemma phi_coinc pi : coinc_b i2v occ (env_of (phi pi)) = true.
Proof.
  rewrite (coinc_ext _ (xt pi) (phi_env pi)). apply LS. apply ext_models; assumption.
Qed.

Lemma RV_inrange pi : In pi (all_envs K) -> Forall (inrange (env_of pi)) (map (resolve F sigma) (phys_axes V)).
Proof.
  intros Hp. apply Forall_forall. intros e He. apply in_map_iff in He. destruct He as (a & <- & Ha).
  unfold phys_axes in Ha. apply in_map_iff in Ha. destruct Ha as ([x n] & <- & Hx). simpl.
  apply inrange_fvn. intros k' n' Hk'. apply (env_of_in_range K pi NK Hp). exact (VK x n Hx _ Hk').
Qed.

Lemma phi_inj p1 p2 : In p1 (all_envs K) -> In p2 (all_envs K) -> phi p1 = phi p2 -> p1 = p2.
Proof.
  intros H1 H2 E. apply (envs_eq K); trivial. intros k Hk.
  apply in_map_iff in Hk. destruct Hk as ([k' n] & <- & Hkn). simpl.
  apply (pattern_injective (map (resolve F sigma) (phys_axes V))); [apply RV_inrange; exact H1|apply RV_inrange; exact H2| |exact (KV k' n Hkn)].
  rewrite !map_map. apply map_ext_in. intros a Ha. unfold phys_axes in Ha. apply in_map_iff in Ha.
  destruct Ha as ([x n'] & <- & Hx). simpl. rewrite !resolve_phys_size.
  assert (Hk : In x (map fst V)) by (apply in_map_iff; exists (x, n'); auto).
  change (ext sigma F (env_of p1) x) with (xt p1 x). change (ext sigma F (env_of p2) x) with (xt p2 x).
  rewrite <- !(phi_env _ x Hk). rewrite E. reflexivity.
Qed.

Lemma NoDup_phi : NoDup (map phi (all_envs K)).
Proof. apply NoDup_map_inj; [|apply NoDup_all_envs]. intros a b Ha Hb. apply phi_inj; assumption. Qed.

(** the summand of the support form *)
Definition g (oidx : list nat) (pi : list (positive * nat)) : R :=
  if leqb (map (lv i2v (env_of pi)) output) oidx then term o ts (env_of pi) else r0.

Definition coincs : list (list (positive * nat)) := filter (fun pi => coinc_b i2v occ (env_of pi)) (all_envs V).

Lemma spec_as_coincs oidx : einsum_dense o (map (dn (R:=R)) ts) inputs output oidx = sumS o coincs (g oidx).
Proof.
  rewrite (dense_support_form o Hr ts inputs output i2v HL HW HD HF HN Hout Hi2v Hsz oidx).
  unfold coincs. rewrite (sumS_filter o Hr). apply (sumS_ext o). intros pi _. unfold g.
  fold occ. destruct (coinc_b i2v occ (env_of pi)); reflexivity.
Qed.

(** the model's sum, transported along [phi] *)
Lemma model_as_phi oidx :
  sumS o (all_envs K) (fun pi => if leqb (map (lv i2v (xt pi)) output) oidx then term o ts (xt pi) else r0)
  = sumS o (map phi (all_envs K)) (g oidx).
Proof.
  rewrite (sumS_map o). apply (sumS_ext o). intros pi _. unfold g.
  rewrite (term_ext o ts _ _ (phi_env pi)).
  replace (map (lv i2v (env_of (phi pi))) output) with (map (lv i2v (xt pi)) output); [reflexivity|].
  apply map_ext. intros l. symmetry. apply lv_ext. apply phi_env.
Qed.

Lemma phi_incl : incl (map phi (all_envs K)) coincs.
Proof.
  intros q Hq. apply in_map_iff in Hq. destruct Hq as (pi & <- & Hp). unfold coincs. apply filter_In.
  split; [apply phi_in; exact Hp|apply phi_coinc].
Qed.

(** soundness half: the model's value is a sub-sum of the specification's sum *)
Theorem reindex_sound oidx :
  exists L, NoDup L /\ incl L coincs /\
    sumS o (all_envs K) (fun pi => if leqb (map (lv i2v (xt pi)) output) oidx then term o ts (xt pi) else r0) = sumS o L (g oidx) /\
    einsum_dense o (map (dn (R:=R)) ts) inputs output oidx = sumS o coincs (g oidx).
Proof.
  exists (map phi (all_envs K)). split; [exact NoDup_phi|]. split; [exact phi_incl|]. split; [apply model_as_phi|apply spec_as_coincs].
Qed.

(** equality under the counting criterion *)
Theorem reindex_complete oidx : length coincs <= length (all_envs K) ->
  sumS o (all_envs K) (fun pi => if leqb (map (lv i2v (xt pi)) output) oidx then term o ts (xt pi) else r0)
  = einsum_dense o (map (dn (R:=R)) ts) inputs output oidx.
Proof.
  intros Hc. rewrite model_as_phi, spec_as_coincs. apply (sumS_perm o Hr).
  apply NoDup_Permutation_bis; [exact NoDup_phi|rewrite map_length; exact Hc|exact phi_incl].
Qed.
End Reindex.
