(** C16 -- in-place updates of factor weights ([UpdWeights]) and copies: a copy owns its
    weights.  Updating the weights of a copy in place leaves the original (every weight of it)
    as it was and vice versa, and the update does to the copy's weights exactly what it would
    have done to the original's. *)
From Coq Require Import List Arith Bool Lia.
Import ListNotations.
Require Import Fggs.Model.GraphAPI Fggs.Proofs.GraphAPI_assoc Fggs.Proofs.GraphAPI_wf
        Fggs.Proofs.GraphAPI_atomic Fggs.Proofs.GraphAPI_frame Fggs.Proofs.GraphAPI_copy.

(** * the table-level operation *)
Lemma f_upd_doms : forall u f, f_doms (f_upd u f) = f_doms f.
Proof. intros u [ds tag]. reflexivity. Qed.

(** a bound factor: the call succeeds; label tables and domains are untouched; the factor dict
    keeps its keys in their order; exactly the named factor changes, to [f_upd u f] *)
Lemma upd_weights_spec : forall t n u f,
    aget Nat.eq_dec (t_fac t) n = Some f ->
    let t' := fst (t_upd_weights t n u) in
    snd (t_upd_weights t n u) = ROk /\
    t_nl t' = t_nl t /\ t_el t' = t_el t /\ t_dom t' = t_dom t /\
    map fst (t_fac t') = map fst (t_fac t) /\
    forall m, aget Nat.eq_dec (t_fac t') m
              = if Nat.eq_dec n m then Some (f_upd u f) else aget Nat.eq_dec (t_fac t) m.
Proof.
  intros t n u f G. unfold t_upd_weights. rewrite G. cbn.
  repeat split.
  - rewrite keys_aset. unfold amem. rewrite G. reflexivity.
  - intros m. apply aget_aset.
Qed.

(** no factor under that name: KeyError, nothing changes *)
Lemma upd_weights_missing : forall t n u,
    aget Nat.eq_dec (t_fac t) n = None -> t_upd_weights t n u = (t, RErr KeyErr).
Proof. intros t n u G. unfold t_upd_weights. rewrite G. reflexivity. Qed.

(** the Python route ([via]) does not matter *)
Lemma upd_weights_via : forall s h n u v v', step s (UpdWeights h n u v) = step s (UpdWeights h n u v').
Proof. reflexivity. Qed.

(** * one step on an object that has an interpretation *)
Lemma step_upd_weights : forall s h o n u via f,
    nth_error (objs s) h = Some o -> has_interp o = true ->
    aget Nat.eq_dec (t_fac (tab_of o)) n = Some f ->
    snd (step s (UpdWeights h n u via)) = ROk /\
    exists o', nth_error (objs (fst (step s (UpdWeights h n u via)))) h = Some o' /\
               has_interp o' = true /\
               t_dom (tab_of o') = t_dom (tab_of o) /\
               aget Nat.eq_dec (t_fac (tab_of o')) n = Some (f_upd u f).
Proof.
  intros s h o n u via f N HI G. cbn [step]. unfold on_tab. rewrite N, HI. cbn [andb negb].
  destruct (upd_weights_spec _ n u _ G) as (R & _ & _ & D & _ & A).
  destruct (t_upd_weights (tab_of o) n u) as [t r] eqn:E. cbn in R, D, A. cbn.
  split; [exact R|]. exists (with_tab o t).
  rewrite nth_error_set_nth_same by (apply nth_error_Some; congruence).
  rewrite has_interp_with_tab, tab_of_with_tab.
  repeat split; try assumption.
  rewrite A. destruct (Nat.eq_dec n n); [reflexivity | congruence].
Qed.

(** * copies *)
Lemma copy_ok_appends : forall s h,
    snd (step s (Copy h)) = ROk ->
    exists x news, objs (fst (step s (Copy h))) = objs s ++ x :: news.
Proof.
  intros s h. cbn [step]. destruct (nth_error (objs s) h) as [[g|x]|]; cbn; try discriminate.
  - destruct (g_copy g); cbn; [eauto | discriminate].
  - destruct (h_copy (objs s) x) as [[c news]|]; cbn; [eauto | discriminate].
Qed.

(** the copy of an object that has an interpretation has one too, with the same domains and
    the same factors (as values: the same weights under the same names, in the same order) *)
Lemma copy_interp : forall s h a,
    inv s -> nth_error (objs s) h = Some a -> has_interp a = true -> snd (step s (Copy h)) = ROk ->
    exists c, nth_error (objs (fst (step s (Copy h)))) (length (objs s)) = Some c /\
              has_interp c = true /\ t_dom (tab_of c) = t_dom (tab_of a) /\ t_fac (tab_of c) = t_fac (tab_of a).
Proof.
  intros s h a I N HI. cbn [step]. rewrite N. destruct a as [g|x]; cbn in HI.
  - destruct (g_copy g) as [c|k] eqn:C; cbn; [intros _ | discriminate].
    pose proof (I _ _ N) as OK. cbn in OK.
    destruct (g_copy_same g c OK C) as (F & _ & _ & _ & _ & _ & IT & _).
    destruct (IT HI) as [D1 D2].
    exists (OG c). rewrite nth_error_app2, Nat.sub_diag by lia. cbn.
    repeat split; try assumption. rewrite F. exact HI.
  - destruct (h_copy (objs s) x) as [[c news]|k] eqn:C; cbn; [intros _ | discriminate].
    unfold h_copy in C.
    destruct (h_new (h_fgg x) (SLabel (h_start x))) as [[c0|] r0]; [|destruct r0; discriminate].
    destruct (copy_groups (objs s) (S (length (objs s))) (h_rules x)) as [[gs news0]|]; [|discriminate].
    inversion C; subst. exists (OH (mkH (h_fgg x) gs (h_start c0)
                                         (mkT (t_nl (h_tab x)) (t_el (h_tab x))
                                              (if h_fgg x then t_dom (h_tab x) else [])
                                              (if h_fgg x then t_fac (h_tab x) else [])))).
    rewrite nth_error_app2, Nat.sub_diag by lia. cbn. rewrite HI. auto.
Qed.

(** THE statement about weights: after a successful copy of an object with a factor [f] under
    [name],
    (1) an in-place update of that factor's weights IN THE COPY succeeds, leaves the original
        object exactly as it was (so every weight of the original is what it was), and gives the
        copy the weights [f_upd u f];
    (2) the same update IN THE ORIGINAL leaves the copy exactly as it was. *)
Theorem copy_update_weights : forall s h a name u via f,
    inv s -> nth_error (objs s) h = Some a -> has_interp a = true ->
    aget Nat.eq_dec (t_fac (tab_of a)) name = Some f ->
    snd (step s (Copy h)) = ROk ->
    let s1 := fst (step s (Copy h)) in
    let c := length (objs s) in
    (snd (step s1 (UpdWeights c name u via)) = ROk /\
     nth_error (objs (fst (step s1 (UpdWeights c name u via)))) h = Some a /\
     exists x, nth_error (objs (fst (step s1 (UpdWeights c name u via)))) c = Some x /\
               aget Nat.eq_dec (t_fac (tab_of x)) name = Some (f_upd u f)) /\
    (nth_error (objs (fst (step s1 (UpdWeights h name u via)))) c = nth_error (objs s1) c).
Proof.
  intros s h a name u via f I N HI G OKc s1 c.
  destruct (copy_interp s h a I N HI OKc) as (x & Nx & HIx & _ & Fx).
  fold s1 c in Nx.
  destruct (copy_ok_appends s h OKc) as (x0 & news & App). fold s1 in App.
  assert (Hh : h < c) by (apply nth_error_Some; congruence).
  assert (Lc : c < length (objs s1)) by (apply nth_error_Some; congruence).
  assert (N1 : nth_error (objs s1) h = Some a) by (rewrite App, nth_error_app1 by exact Hh; exact N).
  split; [|apply step_other_unchanged; [exact Lc | cbn; intros E; inversion E; lia]].
  rewrite <- Fx in G.
  destruct (step_upd_weights s1 c x name u via f Nx HIx G) as (R & x' & Nx' & _ & _ & A).
  split; [exact R|]. split; [|exists x'; split; assumption].
  rewrite <- N1. apply step_other_unchanged; [lia | cbn; intros E; inversion E; lia].
Qed.
