(** C07: a tensor with an EMPTY physical axis is all-default.

    If some physical axis of a patterned tensor has size 0 there is no physical element at all, so
    every cell of the tensor it denotes is the default -- whatever the virtual shape is (the empty
    axis may sit inside a sum-type axis [a + K(0) + b] whose virtual extent is non-zero).  Hence
    such an operand is the semiring's zero tensor only if its default is the semiring's zero:
    [einsum] may take its zero-size exit only AFTER [default_to(zero)] (which densifies an operand
    with another default into a tensor whose physical axes have the non-zero virtual sizes). *)
From Coq Require Import List Arith Bool PeanoNat Lia PArith.
Import ListNotations.
Require Import Fggs.Model.Axis Fggs.Model.PTensor Fggs.Model.Einsum Fggs.Model.EinsumCheck.
Require Import Fggs.Proofs.PTensor_dense Fggs.Proofs.Einsum_oracle.

Lemma flat_map_const_nil {A B : Type} (l : list A) : flat_map (fun _ : A => @nil B) l = [].
Proof. induction l as [|a l IH]; [reflexivity|]. cbn. exact IH. Qed.

(** no in-range environment when some variable has an empty range *)
Lemma all_envs_empty_axis : forall (vars : list (positive * nat)) k, In (k, 0) vars -> all_envs vars = [].
Proof.
  induction vars as [|[k' n] vars IH]; intros k Hin; [destruct Hin|].
  cbn [all_envs]. destruct Hin as [E|Hin].
  - inversion E; subst. reflexivity.
  - rewrite (IH k Hin). cbn [map]. apply flat_map_const_nil.
Qed.

Section Empty.
Context {R : Type}.

(** the oracle's brute-force denotation of a tensor with an empty physical axis: the default, at
    EVERY index tuple *)
Theorem dspec_empty_physical (t : ptensor R) k idx :
  In (k, 0) (paxes t) -> dspec t idx = default t.
Proof.
  intros Hin. unfold dspec. rewrite (all_envs_empty_axis _ k Hin). reflexivity.
Qed.

(** the same for the denotation [denote] (the one the theorems about [einsum_model] speak about) *)
Theorem denote_empty_physical (t : ptensor R) k idx :
  wf R t -> length idx = length (vaxes t) -> In (k, 0) (paxes t) -> denote R t idx = default t.
Proof.
  intros Hwf Hlen Hin. rewrite <- (dspec_denote t idx Hwf Hlen). apply (dspec_empty_physical t k idx Hin).
Qed.

End Empty.

(** a non-trivial instance: the vector [1 + K(0) + 2] (virtual size 3, no physical element) with
    default [true] denotes [true; true; true] *)
Example empty_in_sum_example :
  let t := @mkPT bool (fun _ => false) [(1%positive, 0)] [Sum 1 (Phys 1%positive 0) 2] true in
  shape bool t = [3] /\ map (fun i => dspec t [i]) [0; 1; 2] = [true; true; true].
Proof. split; reflexivity. Qed.
