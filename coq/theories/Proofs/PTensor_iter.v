(** [PatternedTensor.__iter__] (Model/PTensorOps.v, [pt_iter]): after [dim_to_dense(0)] the leading
    dimension is [unitAxis] or a physical axis that occurs in no other dimension; the tensors yielded are
    the slices of the dense tensor along its leading dimension, in order: [denote (slice j) idx' =
    denote t (j :: idx')].  The unit branch yields one tensor that keeps the storage, the physical axes and
    the default.  Guard as for [dim_to_dense]: a size-1 leading dimension is [unitAxis]. *)
From Coq Require Import List Arith Lia PeanoNat Bool PArith.
Import ListNotations.
Require Import Fggs.Model.Axis Fggs.Model.PTensor Fggs.Model.PTensorOps.
Require Import Fggs.Proofs.Axis_sem Fggs.Proofs.Axis_unify Fggs.Proofs.Axis_antiunify Fggs.Proofs.Axis_antiunify_inv.
Require Import Fggs.Proofs.PTensor_sem Fggs.Proofs.PTensor_dense Fggs.Proofs.PTensor_views Fggs.Proofs.PTensor_gen.
Require Import Fggs.Proofs.PTensor_binary Fggs.Proofs.PTensor_struct Fggs.Proofs.PTensor_any Fggs.Proofs.PTensor_d2d.
Local Open Scope nat_scope.

Lemma pindex_spec k : forall (ps : list pn) i, pindex k ps = Some i ->
  exists ps1 n ps2, ps = ps1 ++ (k, n) :: ps2 /\ length ps1 = i.
Proof.
  induction ps as [|[k' n'] ps IH]; intros i H; simpl in H; [discriminate|].
  destruct (Pos.eqb_spec k' k) as [->|Ne].
  - inversion H; subst. exists [], n', ps. split; reflexivity.
  - destruct (pindex k ps) as [i'|] eqn:E; [|discriminate]. simpl in H. inversion H; subst.
    destruct (IH i' eq_refl) as (ps1 & n & ps2 & -> & L). exists ((k', n') :: ps1), n, ps2. split; [reflexivity|simpl; lia].
Qed.

Lemma pindex_total k : forall (ps : list pn), In k (map fst ps) -> exists i, pindex k ps = Some i.
Proof.
  induction ps as [|[k' n'] ps IH]; intros H; [contradiction|]. simpl. destruct (Pos.eqb_spec k' k) as [->|Ne]; [eauto|].
  destruct H as [H|H]; [simpl in H; congruence|]. destruct (IH H) as (i & ->). simpl. eauto.
Qed.

Section Iter.
Variable V : Type.
Notation ptensor := (ptensor V).

Theorem iter_refines next (t : ptensor) l ed :
  wf V t -> vars_below V next t -> nth_error (vaxes t) 0 = Some ed ->
  (is_unit ed = true \/ numel ed <> 1) ->
  pt_iter V next t = Ok l ->
  length l = numel ed /\
  forall j s, nth_error l j = Some s ->
    wf V s /\ shape V s = tl (shape V t) /\ default s = default t /\
    forall idx', in_bounds (tl (shape V t)) idx' -> denote V s idx' = denote V t (j :: idx').
Proof.
  intros W Bt Hn Unit H. unfold pt_iter in H.
  destruct (pt_dim_to_dense V 0 next t) as [[r nx]|] eqn:Ed; [|discriminate]. cbn [bind fst] in H.
  destruct (dim_to_dense_refines V 0 next t r nx ed W Bt Hn Unit Ed) as (Wr & Sr & Dr & (pre & e & post & Ev & Lp & He) & Den).
  destruct pre; [|discriminate]. simpl in Ev.
  assert (Esh : shape V t = numel ed :: tl (shape V t)).
  { unfold shape. destruct (vaxes t) as [|e0 es]; [discriminate|]. simpl in Hn. inversion Hn; subst. reflexivity. }
  assert (Ne : numel e = numel ed /\ map numel post = tl (shape V t)).
  { unfold shape in Sr. rewrite Ev in Sr. simpl in Sr. fold (shape V t) in Sr. rewrite Esh in Sr. inversion Sr. split; reflexivity. }
  destruct Ne as [Ne Npost].
  rewrite Ev in H.
  (* a slice read through an environment *)
  assert (Trans : forall (s : ptensor) j, wf V s -> vaxes s = post -> default s = default r -> j < numel e ->
            (forall rho, Forall (inrange rho) (e :: post) -> eval rho e = j -> pget V s rho = pget V r rho) ->
            (forall rho', Forall (inrange rho') post -> exists rho, Forall (inrange rho) (e :: post) /\ eval rho e = j /\ evals rho post = evals rho' post) ->
            forall idx', in_bounds (tl (shape V t)) idx' -> denote V s idx' = denote V t (j :: idx')).
  { intros s j Ws Evs Ds Hj Fw Bw idx' Bd.
    assert (Bj : in_bounds (shape V t) (j :: idx')) by (rewrite Esh; constructor; [lia|exact Bd]).
    rewrite <- (Den (j :: idx') Bj).
    assert (Li : length idx' = length post) by (apply Forall2_len in Bd; rewrite <- Npost, map_length in Bd; exact Bd).
    apply (denote_transfer V r s (j :: idx') idx' Wr Ws Ds); [rewrite Ev; simpl; lia|rewrite Evs; exact Li| |].
    - intros rho R E. rewrite Ev in R, E. simpl in E. inversion E as [[E1 E2]]. exists rho. rewrite Evs.
      inversion R as [|? ? R1 R2]; subst. split; [exact R2|]. split; [reflexivity|]. apply Fw; [exact R|reflexivity].
    - intros rho' R' E'. rewrite Evs in R', E'. destruct (Bw rho' R') as (rho & R & E1 & E2). exists rho. rewrite Ev.
      split; [exact R|]. unfold evals in *. simpl. rewrite E1, E2, E'. reflexivity. }
  destruct He as [->|(k & n & -> & Hk)].
  - (* the leading axis is unitAxis: one tensor, storage and default kept *)
    cbn [is_unit] in H. inversion H; subst l. clear H. simpl in Ne. split; [simpl; lia|].
    intros j s Hs. destruct j as [|j]; [|destruct j; discriminate]. simpl in Hs. inversion Hs; subst s. clear Hs.
    set (S0 := mkPT (physical r) (paxes r) post (default r)).
    assert (W0 : wf V S0).
    { constructor; cbn [paxes vaxes S0]; [exact (wf_nodup V r Wr)|]. intros k n. rewrite <- (wf_fv V r Wr k n), Ev. simpl. tauto. }
    split; [exact W0|]. split; [exact Npost|]. split; [exact Dr|].
    apply (Trans S0 0 W0 eq_refl eq_refl); [simpl; lia| |].
    + intros rho _ _. reflexivity.
    + intros rho' R'. exists rho'. split; [constructor; [exact I|exact R']|]. split; reflexivity.
  - (* the leading axis is a physical axis that occurs nowhere else: the slices of the storage *)
    assert (Hin : In (k, n) (paxes r)) by (apply (wf_fv V r Wr); rewrite Ev; left; reflexivity).
    destruct (pindex_total k (paxes r)) as (i & Ei); [apply in_map_iff; exists (k, n); auto|].
    rewrite Ei in H. inversion H; subst l. clear H. simpl in Ne.
    destruct (pindex_spec k _ _ Ei) as (ps1 & n' & ps2 & Eps & Li).
    assert (n' = n).
    { pose proof (wf_nodup V r Wr) as ND. rewrite Eps in Hin, ND. apply in_app_or in Hin. rewrite map_app in ND. simpl in ND.
      apply NoDup_remove_2 in ND. destruct Hin as [Hin|[Hin|Hin]].
      - exfalso. apply ND. apply in_or_app. left. apply in_map_iff. exists (k, n). auto.
      - inversion Hin. reflexivity.
      - exfalso. apply ND. apply in_or_app. right. apply in_map_iff. exists (k, n). auto. }
    subst n'. split; [rewrite map_length, seq_length; exact Ne|].
    intros j s Hs. rewrite nth_error_map in Hs. destruct (nth_error (seq 0 n) j) as [j'|] eqn:Ej; [|discriminate].
    assert (Hj : j < n).
    { rewrite <- (seq_length n 0). apply nth_error_Some. rewrite Ej. discriminate. }
    assert (j' = j).
    { apply nth_error_nth with (d := 0) in Ej. rewrite seq_nth in Ej by exact Hj. simpl in Ej. lia. }
    subst j'.
    simpl in Hs. inversion Hs; subst s. clear Hs.
    rewrite Eps, <- Li, remove_nth_app.
    set (Sj := mkPT (fun idx => physical r (insert_nth (length ps1) j idx)) (ps1 ++ ps2) post (default r)).
    assert (NDr : NoDup (map fst (ps1 ++ (k, n) :: ps2))) by (rewrite <- Eps; exact (wf_nodup V r Wr)).
    assert (Wj : wf V Sj).
    { constructor; cbn [paxes vaxes Sj].
      - rewrite map_app in *. simpl in NDr. exact (NoDup_remove_1 _ _ _ NDr).
      - intros k0 n0. pose proof (wf_fv V r Wr k0 n0) as F. rewrite Ev, Eps in F. simpl in F. rewrite in_app_iff in F. simpl in F. rewrite in_app_iff.
        split; intros H0.
        + assert (In (k0, n0) ps1 \/ (k, n) = (k0, n0) \/ In (k0, n0) ps2) as [A|[A|A]] by tauto; [left; exact A| |right; exact A].
          exfalso. inversion A; subst k0 n0. apply Hk. simpl. apply In_fv_fvn. exists n. exact H0.
        + assert (HF : (k, n) = (k0, n0) \/ In (k0, n0) (flat_map fvn post)) by tauto. destruct HF as [A|A]; [|exact A]. exfalso.
          inversion A; subst k0 n0. rewrite map_app in NDr. simpl in NDr. apply NoDup_remove_2 in NDr. apply NDr. apply in_or_app.
          destruct H0 as [H0|H0]; [left|right]; apply in_map_iff; exists (k, n); auto. }
    split; [exact Wj|]. split; [exact Npost|]. split; [exact Dr|].
    apply (Trans Sj j Wj eq_refl eq_refl); [simpl; lia| |].
    + intros rho R Ek. simpl in Ek. unfold pget. cbn [physical paxes Sj]. rewrite Eps. f_equal.
      unfold pcoords. rewrite !map_app. simpl. rewrite Ek. rewrite <- (map_length (fun kn : pn => rho (fst kn)) ps1). apply insert_nth_app.
    + intros rho' R'. exists (fun x => if Pos.eqb x k then j else rho' x).
      assert (Same : forall x, In x (flat_map fv post) -> (if Pos.eqb x k then j else rho' x) = rho' x).
      { intros x Hx. destruct (Pos.eqb_spec x k) as [->|]; [exfalso; apply Hk; exact Hx|reflexivity]. }
      split; [constructor|split].
      * simpl. rewrite Pos.eqb_refl. lia.
      * apply (Forall_inrange_ext' rho'); [intros x Hx; symmetry; apply Same; exact Hx|exact R'].
      * simpl. rewrite Pos.eqb_refl. reflexivity.
      * apply evals_ext. exact Same.
Qed.

End Iter.

(** the hypotheses are satisfiable: iterating over a tensor stored on the diagonal of a 2 x 2 matrix gives its rows *)
Example iter_ex :
  let t : PTensor.ptensor nat := mkPT (fun c => match c with [i] => 10 + i | _ => 0 end) [(1%positive, 2)] [Phys 1 2; Phys 1 2] 9 in
  exists l, pt_iter nat 5 t = Ok l /\ length l = 2 /\
    map (fun s => map (denote nat s) [[0]; [1]]) l = [[10; 9]; [9; 11]].
Proof. cbv zeta. eexists. split; [vm_compute; reflexivity|]. split; reflexivity. Qed.
