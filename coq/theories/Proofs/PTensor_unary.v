(** Unary maps, scalar forms and their side condition "the new default is the map applied to the
    old default" on the concrete carrier [xval].  Since the repairs fc474fc / fd2047f / ad94aa4 in
    /repo the default of div, relu_, maximum, exp/log is computed like torch computes an element, so
    the side condition holds for every default (0, inf, NaN included); the former Python-scalar
    behaviour is kept only as [*_old] definitions with the theorems that refuted it. *)
From Coq Require Import List Arith Lia PeanoNat Bool PArith QArith Qcanon.
Import ListNotations.
Require Import Fggs.Model.Axis Fggs.Model.XVal Fggs.Model.PTensor Fggs.Model.PTensorCheck.
Require Import Fggs.Proofs.PTensor_sem.
Local Open Scope nat_scope.

Lemma Qccompare_antisym (p q : Qc) : CompOpp (Qccompare p q) = Qccompare q p.
Proof. unfold Qccompare. apply Qcompare_antisym. Qed.

(** Python's max/min agree with torch's NaN-propagating maximum/minimum unless the *second*
    argument is NaN *)
Lemma py_max_xmax d s : xisnan s = false -> py_max d s = xmax d s.
Proof.
  intros Hs. unfold py_max, xmax. rewrite Hs, orb_false_r.
  destruct d; destruct s; simpl; try reflexivity; try discriminate.
Qed.

Lemma py_min_xmin d s : xisnan s = false -> py_min d s = xmin d s.
Proof.
  intros Hs. unfold py_min, xmin. rewrite Hs, orb_false_r.
  destruct d; destruct s; simpl; try reflexivity; try discriminate.
Qed.

(** [max(0, default)] is relu of the default unless the default is NaN *)
Lemma py_relu d : xisnan d = false -> py_max (XF 0) d = xrelu d.
Proof.
  intros Hd. unfold xrelu, py_max, xmax. rewrite Hd. simpl.
  destruct d as [q| | |]; try discriminate; simpl; try reflexivity.
  pose proof (Qccompare_antisym q 0%Qc) as A. unfold qsign.
  destruct (Qccompare q 0%Qc) eqn:E; simpl in A; rewrite <- A; simpl; try reflexivity.
  apply Qceq_alt in E. subst. reflexivity.
Qed.

(** record of the behaviour before fd2047f: [max(0, default)] in Python drops a NaN default *)
Definition relu_default_old (d : xval) : xval := py_max (XF 0) d.
Definition maximum_default_old (dt du : xval) : xval := py_max dt du.
Theorem relu_default_old_refuted : relu_default_old XNaN <> xrelu XNaN.
Proof. vm_compute. discriminate. Qed.
Theorem maximum_default_old_refuted : maximum_default_old (XF 1) XNaN <> xmax (XF 1) XNaN.
Proof. vm_compute. discriminate. Qed.

(** clamp_min / clamp_max still use Python's max / min on the default: they agree with torch unless
    the *scalar argument* is NaN *)
Definition unary_guard (op : nat) (sc : list xval) : bool :=
  match op with
  | 13 | 14 => negb (xisnan (nth 0 sc XNaN))
  | _ => true
  end.

Definition is_unary (op : nat) : bool := (10 <=? op) && (op <=? 23).

(** C06 (unary maps and scalar forms): the model of every unary map / scalar operation denotes the
    pointwise map of the denotation, for every default *)
Theorem unary_refines op sc (t r : pt) next f idx :
  is_unary op = true -> unary_guard op sc = true ->
  model_op op [] sc [t] next = Ok r -> unary_fn op sc = Some f ->
  denote xval r idx = f (denote xval t idx).
Proof.
  intros U G H F. unfold is_unary in U. apply andb_true_iff in U. destruct U as [U1 U2].
  apply Nat.leb_le in U1, U2.
  do 10 (destruct op as [|op]; [lia|]).
  do 14 (destruct op as [|op];
         [cbn in H, F, G;
          inversion H; inversion F; subst; apply map_refines;
          try reflexivity;
          try (apply py_max_xmax; apply negb_true_iff; exact G);
          try (apply py_min_xmin; apply negb_true_iff; exact G)|]).
  lia.
Qed.

(** nan_to_num_ *)
Theorem nan_to_num_refines na sc (t r : pt) next idx :
  model_op 24 na sc [t] next = Ok r ->
  denote xval r idx =
  xnan_to_num (nth 0 sc XNaN) (opt_of_flag (nth 0 na 0) (nth 1 sc XNaN)) (opt_of_flag (nth 1 na 0) (nth 2 sc XNaN))
              (denote xval t idx).
Proof. intros H. cbn in H. inversion H; subst. apply map_refines. reflexivity. Qed.

Definition t_ex : pt :=
  mkPT (fun idx => match idx with [0] => XF 1 | _ => XF (Q2Qc (Qmake 3 2)) end)
       [(1%positive, 2)] [Phys 1 2; Phys 1 2] (XF 1).
Definition u_ex : pt :=
  mkPT (fun idx => match idx with [0] => XF 1 | _ => XF (Q2Qc (Qmake 2 1)) end)
       [(5%positive, 2)] [Phys 5 2; Phys 5 2] (XF 0).
Definition t_nan : pt :=
  mkPT (fun idx => match idx with [0] => XF 1 | _ => XF (Q2Qc (Qmake (-2) 1)) end)
       [(1%positive, 2)] [Phys 1 2; Phys 1 2] XNaN.

(** division by a scalar, for EVERY scalar (0, inf, NaN included) and every default *)
Theorem div_scalar_refines s (t r : pt) next idx :
  model_op 18 [] [s] [t] next = Ok r ->
  denote xval r idx = xdiv (denote xval t idx) s.
Proof.
  intros H. apply (unary_refines 18 [s] t r next (fun x => xdiv x s) idx); try reflexivity; exact H.
Qed.

Example div_scalar_zero_ex :
  exists r, model_op 18 [] [XF 0] [t_ex] 2 = Ok r /\ denote xval r [0; 1] = XPInf /\ denote xval r [0; 0] = XPInf.
Proof. eexists. split; [reflexivity|]. split; vm_compute; reflexivity. Qed.

(** relu_, for every default (NaN propagates) *)
Theorem relu_refines (t r : pt) next idx :
  model_op 12 [] [] [t] next = Ok r -> denote xval r idx = xrelu (denote xval t idx).
Proof.
  intros H. apply (unary_refines 12 [] t r next xrelu idx); try reflexivity; exact H.
Qed.

Example relu_nan_default_ex :
  exists r, model_op 12 [] [] [t_nan] 2 = Ok r /\ denote xval r [0; 1] = XNaN /\ denote xval r [1; 1] = XF 0.
Proof. eexists. split; [reflexivity|]. split; vm_compute; reflexivity. Qed.

Example unary_ex : exists r, model_op 12 [] [] [t_ex] 2 = Ok r /\ denote xval r [1; 1] = XF (Q2Qc (Qmake 3 2)).
Proof. eexists. split; [reflexivity|]. vm_compute. reflexivity. Qed.

(** * log / log1p / exp: the helpers [_log], [_log1p], [_exp] of /repo (ad94aa4) against torch.
    The transcendental function itself is a parameter ([lnpos q] = log q for q > 0, as an [xval]);
    what is proved is that the helper treats every special default as torch treats an element. *)
Section Log.
Variable lnpos : Qc -> xval.

(** torch.log on an element *)
Definition xlog (a : xval) : xval :=
  match a with
  | XF q => match qsign q with Gt => lnpos q | Eq => XNInf | Lt => XNaN end
  | XPInf => XPInf
  | XNInf | XNaN => XNaN
  end.

(** [_log(x) = log(x) if x > 0 else (-inf if x == 0 else nan)], [math.log(inf) = inf] *)
Definition py_log (a : xval) : xval :=
  if xltb (XF 0) a then (match a with XF q => lnpos q | _ => XPInf end)
  else if xeq_num a (XF 0) then XNInf else XNaN.

Lemma py_log_xlog a : py_log a = xlog a.
Proof.
  destruct a as [q| | |]; try reflexivity.
  unfold py_log, xlog, xltb, xeq_num, xleb, xltb, qsign. simpl.
  pose proof (Qccompare_antisym q 0%Qc) as A.
  destruct (Qccompare q 0%Qc) eqn:E; simpl in A; rewrite <- A; reflexivity.
Qed.

(** log / log_ : pointwise for every default *)
Theorem log_refines (t : pt) idx :
  denote xval (pt_map xval xlog (py_log (default t)) t) idx = xlog (denote xval t idx).
Proof. apply map_refines. apply py_log_xlog. Qed.

(** the behaviour before ad94aa4: [log(default) if default else -inf] raised ValueError on a
    negative or -inf default; as a partial function: *)
Definition py_log_old (a : xval) : option xval :=
  if xeq_num a (XF 0) then Some XNInf
  else if xltb (XF 0) a then Some (match a with XF q => lnpos q | _ => XPInf end)
  else if xisnan a then Some XNaN else None.          (* math.log(nan) = nan; negative: ValueError *)
Theorem py_log_old_refuted : py_log_old XNInf = None /\ xlog XNInf = XNaN.
Proof. split; reflexivity. Qed.
End Log.
