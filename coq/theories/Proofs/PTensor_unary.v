(** Unary maps, scalar forms and their side condition "the new default is the map applied to the
    old default" on the concrete carrier [xval]; where the code computes the default with a Python
    scalar operation that differs from the torch operation, the refutation and the guarded
    positive statement (F16: division by a zero scalar / zero default). *)
From Coq Require Import List Arith Lia PeanoNat Bool PArith QArith Qcanon.
Import ListNotations.
Require Import Fggs.Model.Axis Fggs.Model.XVal Fggs.Model.PTensor Fggs.Model.PTensorCheck.
Require Import Fggs.Proofs.PTensor_sem.
Local Open Scope nat_scope.

Lemma Qccompare_antisym (p q : Qc) : CompOpp (Qccompare p q) = Qccompare q p.
Proof. unfold Qccompare. apply Qcompare_antisym. Qed.

(** Python's max/min agree with torch's NaN-propagating maximum/minimum unless the *second*
    argument is NaN *)
Lemma py_max_xmax d s : xisnan s = false -> py_max d s = xmax d s.
Proof.
  intros Hs. unfold py_max, xmax. rewrite Hs, orb_false_r.
  destruct d; destruct s; simpl; try reflexivity; try discriminate.
Qed.

Lemma py_min_xmin d s : xisnan s = false -> py_min d s = xmin d s.
Proof.
  intros Hs. unfold py_min, xmin. rewrite Hs, orb_false_r.
  destruct d; destruct s; simpl; try reflexivity; try discriminate.
Qed.

(** [max(0, default)] is relu of the default unless the default is NaN *)
Lemma py_relu d : xisnan d = false -> py_max (XF 0) d = xrelu d.
Proof.
  intros Hd. unfold xrelu, py_max, xmax. rewrite Hd. simpl.
  destruct d as [q| | |]; try discriminate; simpl; try reflexivity.
  pose proof (Qccompare_antisym q 0%Qc) as A. unfold qsign.
  destruct (Qccompare q 0%Qc) eqn:E; simpl in A; rewrite <- A; simpl; try reflexivity.
  apply Qceq_alt in E. subst. reflexivity.
Qed.

Example py_relu_nan_refuted : py_max (XF 0) XNaN <> xrelu XNaN.
Proof. vm_compute. discriminate. Qed.

(** guard under which the Python-computed default equals the torch map of the default *)
Definition unary_guard (op : nat) (sc : list xval) (d : xval) : bool :=
  match op with
  | 12 => negb (xisnan d)
  | 13 | 14 => negb (xisnan (nth 0 sc XNaN))
  | _ => true
  end.

Definition is_unary (op : nat) : bool := (10 <=? op) && (op <=? 23).

(** C06 (unary maps and scalar forms): the model of every unary map / scalar operation denotes the
    pointwise map of the denotation *)
Theorem unary_refines op sc (t r : pt) next f idx :
  is_unary op = true -> unary_guard op sc (default t) = true ->
  model_op op [] sc [t] next = Ok r -> unary_fn op sc = Some f ->
  denote xval r idx = f (denote xval t idx).
Proof.
  intros U G H F. unfold is_unary in U. apply andb_true_iff in U. destruct U as [U1 U2].
  apply Nat.leb_le in U1, U2.
  do 10 (destruct op as [|op]; [lia|]).
  do 14 (destruct op as [|op];
         [cbn in H, F, G; try (destruct (is0 (nth 0 sc XNaN)); [discriminate|]);
          inversion H; inversion F; subst; apply map_refines;
          try reflexivity;
          try (apply py_relu; apply negb_true_iff; exact G);
          try (apply py_max_xmax; apply negb_true_iff; exact G);
          try (apply py_min_xmin; apply negb_true_iff; exact G)|]).
  lia.
Qed.

(** nan_to_num_ (F1 has been repaired in /repo: neginf is passed on) *)
Theorem nan_to_num_refines na sc (t r : pt) next idx :
  model_op 24 na sc [t] next = Ok r ->
  denote xval r idx =
  xnan_to_num (nth 0 sc XNaN) (opt_of_flag (nth 0 na 0) (nth 1 sc XNaN)) (opt_of_flag (nth 1 na 0) (nth 2 sc XNaN))
              (denote xval t idx).
Proof. intros H. cbn in H. inversion H; subst. apply map_refines. reflexivity. Qed.

(** F16: dividing by the scalar 0 -- the dense operation is defined (x / 0 = +-inf or NaN) but the
    code computes [self.default / other] in Python and raises ZeroDivisionError *)
Definition t_ex : pt :=
  mkPT (fun idx => match idx with [0] => XF 1 | _ => XF (Q2Qc (Qmake 3 2)) end)
       [(1%positive, 2)] [Phys 1 2; Phys 1 2] (XF 1).

Theorem div_scalar_zero_refuted :
  model_op 18 [] [XF 0] [t_ex] 2 = Fail ZeroDivisionError /\
  exists shp f, spec_op 18 [] [XF 0] [t_ex] = OVal shp f /\ f [0; 1] = XPInf.
Proof. split; [reflexivity|]. eexists. eexists. split; [reflexivity|]. vm_compute. reflexivity. Qed.

(** F16, tensor form: a divisor whose default is 0 *)
Definition u_ex : pt :=
  mkPT (fun idx => match idx with [0] => XF 1 | _ => XF (Q2Qc (Qmake 2 1)) end)
       [(5%positive, 2)] [Phys 5 2; Phys 5 2] (XF 0).

Theorem div_default_zero_refuted :
  model_op 33 [] [] [t_ex; u_ex] 9 = Fail ZeroDivisionError /\
  exists shp f, spec_op 33 [] [] [t_ex; u_ex] = OVal shp f /\ f [0; 1] = XPInf.
Proof. split; [reflexivity|]. eexists. eexists. split; [reflexivity|]. vm_compute. reflexivity. Qed.

(** positive statement under the guard: a non-zero scalar divisor *)
Theorem div_scalar_refines s (t r : pt) next idx :
  is0 s = false -> model_op 18 [] [s] [t] next = Ok r ->
  denote xval r idx = xdiv (denote xval t idx) s.
Proof.
  intros G H. apply (unary_refines 18 [s] t r next (fun x => xdiv x s) idx); try reflexivity; exact H.
Qed.

Example unary_ex : exists r, model_op 12 [] [] [t_ex] 2 = Ok r /\ denote xval r [1; 1] = XF (Q2Qc (Qmake 3 2)).
Proof. eexists. split; [reflexivity|]. vm_compute. reflexivity. Qed.

(** F22: relu_ / maximum compute the default with Python's max, which drops a NaN default *)
Definition t_nan : pt :=
  mkPT (fun idx => match idx with [0] => XF 1 | _ => XF (Q2Qc (Qmake (-2) 1)) end)
       [(1%positive, 2)] [Phys 1 2; Phys 1 2] XNaN.

Theorem relu_nan_default_refuted :
  exists r, model_op 12 [] [] [t_nan] 2 = Ok r /\
            denote xval r [0; 1] = XF 0 /\ xrelu (denote xval t_nan [0; 1]) = XNaN.
Proof. eexists. split; [reflexivity|]. split; vm_compute; reflexivity. Qed.

Theorem maximum_nan_default_refuted : py_max (XF 1) XNaN = XF 1 /\ xmax (XF 1) XNaN = XNaN.
Proof. split; reflexivity. Qed.
